#!/usr/bin/env python3
"""Regenerates /verif/MANIFEST.json from the table below (one row per property)."""
import json, subprocess

BASELINE = "cd /repo && cargo nextest run --workspace --no-fail-fast --tool-config-file pb:/w/lib/nextest.toml --profile pb --test-threads 8 --offline"

# id -> (category, technique, level text, level note, design_ref)   (None = not yet claimed, with reason)
CHECKS = {
 "C01": ("exploration", "differential run-time monitor: real engine vs independent reference evaluator over generated programs, incl. the handler's bound-query form",
         "held on every generated (program, EDB) of the run: the real IQLEngine's answer equals an independent naive stratified evaluator's, tuple for tuple; generated fragment and counts are in the evidence",
         "trusted: the reference evaluator (harness/src/refdl.rs); fragment: ints/strings, joins, negation, self+mutual recursion, comparisons, + - *, aggregates", "3/C01"),
 "C02": ("exploration", "differential run-time monitor: all 32 optimizer configurations on the same generated program",
         "held on every generated program of the run: the 32 OptimizationConfig combinations return the same tuple set (or all fail)",
         "trusted: nothing but set equality; the reference evaluator only names the wrong side", "3/C02"),
 "C03": ("exploration", "differential run-time monitor: worker counts 1,2,3,4,8 on the same generated program",
         "held on every generated program of the run apart from the listed known finding: answers with n workers equal the 1-worker answer",
         "trusted: set equality with the single-worker run", "3/C03"),
 "C07": ("exploration", "structural run-time monitor on every answer the engine returns (duplicates, arity, head constants)",
         "held on every answer observed in the run apart from the listed known finding (recursive min/max)",
         "purely structural oracle", "3/C07"),
 "C08": ("exploration", "differential run-time monitor: limited run vs unlimited run of the same engine",
         "held on every generated (program, N) of the run apart from the listed known findings: |R| = min(N,|A|) and R is a subset of A",
         "trusted: the unlimited run of the same configuration", "3/C08"),
 "C31": ("exploration", "law-checking run-time monitor: exhaustive triples over a representative value domain + random tuples + consolidation vs multiset model",
         "held for all ordered triples of the 54-value domain (every kind, float/vector edge values) and on the random tuples / update lists of the run: cmp-Equal iff ==, == implies equal hash, antisymmetry, transitivity; sort+dedup and consolidate agree with an Eq/Hash multiset",
         "trusted: std HashMap as equality model; the domain is finite and listed in harness/src/props/c31.rs", "3/C31"),
 "C36": ("exploration", "model-based run-time monitor: bloom no-false-negative check and hash index vs multiset model after every step",
         "held on every generated key set / index history of the run: inserted keys always test positive; get/get_with_bloom/probe return exactly the model's tuples per key; counts match",
         "trusted: HashMap multiset model keyed by Value's Eq/Hash", "3/C36"),
 "C11": ("exploration", "history-replay run-time monitor: live dump vs dump after reopening the same directory, exhaustive short histories + random long ones",
         "held for every history string up to length 4 (quick) / 5 (thorough) over a 10-letter alphabet and for the random histories of the run, under 3 buffer sizes and 2 shutdown styles: the reopened store equals the live store",
         "trusted: the engine's own live dump as reference; clean shutdown = drop (no Drop hook) or save_all+drop", "3/C11"),
 "C12": ("exploration", "round-trip run-time monitor: accepted tuples vs dump after two reopen cycles, over all value kinds and kind pairs",
         "held on every generated relation of the run apart from the listed known findings (mixed-kind columns, Null/Timestamp/NaN/inf/empty vectors, vector dimension mixes)",
         "trusted: Value's bitwise Eq; rejected inserts are outside the property", "3/C12"),
 "C14": ("exploration", "differential run-time monitor: engine with interleaved maintenance and hostile persistence configuration vs twin engine without",
         "held on every generated history/configuration of the run: after every step and after a clean restart, the maintained engine M and the plain twin P hold the same facts and answer a join query alike",
         "trusted: twin P (same code, default config, no maintenance) as reference", "3/C14"),
 "C32": ("exploration", "model-based run-time monitor: set model of two relations checked after every write, reports parsed from API returns and handler messages",
         "held on every generated history of the run: dumps are duplicate-free and equal the set model after every step; insert/delete/conditional-delete/update reports equal the model's counts",
         "trusted: the harness's own evaluation of 9 condition/update templates", "3/C32"),
 "C33": ("exploration", "model-based run-time monitor: conformance oracle on the dump and on session answers after every write through every write path",
         "held on every generated schema/history of the run apart from the listed known findings (session-fact paths, schema declared over non-conforming data): stored tuples conform, non-conforming batches leave the relation unchanged, conforming batches are stored",
         "trusted: the harness's conformance table (int, float<-int, string, bool, vector)", "3/C33"),
 "C30": ("exploration", "fault-injection run-time monitor: syntax error injected at every position of generated valid programs, full dump compared before/after; in-order set model for the valid program",
         "held on every generated program of the run: a program containing a line parse_statement rejects fails as a whole and leaves every KG's facts/rules/schemas unchanged; the valid program ends in the in-order model state with matching per-statement reports",
         "trusted: the crate's own parse_statement to define 'fails to parse'; set model for 7 statement kinds", "3/C30"),
 "C34": ("exploration", "differential run-time monitor: independent dependency-graph analysis vs accept/evaluate behaviour over every persistent/session split",
         "held on every generated rule set, split and session style of the run: a predicate on a negative cycle is never answered, stratified sets are always answered, no stratification-preserving registration is refused",
         "trusted: the harness's reachability-based stratifiability test", "3/C34"),
 "C27": ("exploration", "run-time monitor over generated multi-line programs x 12 non-admin identities: complete dumps of every KG compared before/after each request",
         "held on every generated program/identity of the run: no KG on which the caller's role is viewer or absent changed or disappeared, no global viewer created a KG, no non-admin created a user",
         "trusted: the role model stated in src/auth.rs (per-KG role is the authority for data access); dumps through the storage API", "3/C27"),
 "C28": ("exploration", "exhaustive evaluation of both decision functions over every statement/meta-command variant x role, plus observed execution of every viewer-permitted variant",
         "exhaustive over all 60 Statement/MetaCommand variants (compile-time exhaustive match + run-time reach check) x 3 KG roles x 3 global roles: both permission relations are monotone, admin-only operations are denied to non-admins, and every viewer-permitted variant leaves the persistent dump unchanged (live and after restart) apart from the listed known finding",
         "trusted: dump = KG list + facts + rules + schemas; one or more canonical texts per variant", "3/C28"),
 "C29": ("exploration", "run-time monitor over generated programs naming the internal graph in every position x 12 non-admin identities: _internal dump, canary scan of every returned row, switched_kg and session binding",
         "held on every generated program/identity of the run: _internal unchanged, no canary or password hash returned, never switched or bound to _internal",
         "trusted: canaries planted in _internal + stored password hashes identify data read from it", "3/C29"),
 "C04": ("exploration", "metamorphic run-time monitor: clause permutations / duplicated clauses / used engines / registration orders vs the canonical run",
         "held on every generated program of the run: all permutations (<=5 clauses, 24 sampled beyond) and a duplicated clause give the canonical answer; an engine that evaluated 1-6 other programs answers like a fresh one and its base facts are untouched; persistent rules registered in two orders (and reloaded) answer alike",
         "trusted: canonical order on a fresh engine as reference (C01 ties it to the least model)", "3/C04"),
 "C05": ("exploration", "differential run-time monitor: executor on the unrewritten plan vs executor on the plan after each rewrite pass and after the pipeline",
         "held on every plan the real IRBuilder produced for the generated programs of the run: optimize, plan_joins, specialize and their pipeline leave the executed result unchanged",
         "trusted: the crate's executor on the unrewritten plan as denotation; plans come from IRBuilder only (no synthetic plan generator yet)", "3/C05"),
 "C06": ("exploration", "differential run-time monitor: aggregate queries under all 32 optimizer settings vs independent reference aggregate semantics",
         "held on every generated aggregate query of the run under each of the 32 configurations: groups and values equal the reference evaluator's (avg within 1e-9)",
         "trusted: the reference evaluator's aggregate semantics (one contribution per distinct valuation of all body variables)", "3/C06"),
 "C35": ("exploration", "run-time monitor: ordered/paginated answers vs the unsorted full answer of the same query with an independent comparator",
         "held on every generated relation/query of the run: sub-multiset, slice size, total_count, adjacent comparable keys in order, and (when all keys are comparable) the exact key sequence of positions [o, o+n) of the sorted answer",
         "trusted: the unsorted unpaginated answer of the same query; the harness's comparator on comparable pairs only", "3/C35"),
 "C21": ("exploration", "independent proof checker re-validating every node of every proof tree returned by .why",
         "held on every tree returned for the generated programs of the run: roots conclude answer tuples; rule steps instantiate registered clauses with bindings under which head, positive body atoms (vs children), comparisons and assignments check out; edb leaves are stored; negation leaves match nothing in the reference model",
         "trusted: the harness's clause parser/unifier/evaluator and the reference model for derived and negated facts", "3/C21"),
 "C22": ("exploration", "run-time monitor: every answer tuple with a shallow reference derivation must have a tree whose root is a real proof step",
         "held on every answer tuple of the run apart from the listed known finding (tuples only derivable through computed-column rules): .why succeeds, returns a tree for the tuple, root is neither the truncated nor the derived-fact fallback",
         "trusted: reference derivation depths (all far below the limit of 50)", "3/C22"),
 "C23": ("exploration", "run-time monitor: every blocker of every why-not reply re-evaluated against the reference model, over all candidate tuples of the value domain",
         "held on every candidate tuple of the run apart from the listed known findings (derived data invisible to why-not, no backtracking, computed columns): underivable tuples get a true blocker for every clause, derivable tuples are never fully blocked",
         "trusted: reference model; blockers read from the structured WhyNot nodes of the reply", "3/C23"),
 "C24": ("exploration", "model-based run-time monitor: history model + brute force with exact metric distances checked after every index operation",
         "held on every search of the run apart from the listed known findings (the approximate graph misses live vectors even when ef >= live): <= k distinct live ids, non-decreasing exact distances; the exact-k-nearest clause is a known finding",
         "trusted: the crate's vector_ops distances (C26), the history model; thorough tier additionally runs 200 reduced index histories under AddressSanitizer (the index holds the crate's only unsafe block; hnsw_rs cannot run under Miri)", "3/C24"),
 "C25": ("exploration", "model-based run-time monitor: index state (ids via exhaustive search, latest vectors, len, dimension, tombstone count, config) vs history model after every operation incl. save/load",
         "held on every history of the run apart from the listed known finding (exhaustive search does not reach every live id): no deleted/unknown id visible, latest vectors stored, len/dimension/tombstone_count/config as implied, across save/load",
         "trusted: the history model incl. the documented 30% auto-compaction policy; thorough tier additionally runs 200 reduced index histories under AddressSanitizer", "3/C25"),
 "C26": ("exploration", "law-checking run-time monitor over random vectors, plus LSH bucket determinism across hyperplane-cache states and 4 concurrent threads",
         "held on every generated input of the run: distance symmetry/non-negativity/zero-on-self/cosine range, quantisation error within one step, LSH buckets equal across cold/warm/evicted/regrown/concurrent cache states, probe sequences start at the bucket without repeats (lsh_probes monotone in Hamming distance), temporal predicate laws",
         "trusted: the cold-cache bucket as reference; thorough tier additionally runs a reduced LSH-cache workload (3 threads, cache clear/resize) under Miri (UB and data-race detection); a Miri run that cannot be built or started is inconclusive", "3/C26"),
 "C09": ("exploration", "round-trip and differential run-time monitor: print/parse round trip of generated rule texts; the same rule through engine / inline / session / persistent / restarted paths",
         "held on every generated rule of the run: the printed rule parses back to the same AST; the answers through the inline-session, WebSocket-session, persistent and restarted-persistent paths equal the engine's answer on the original text (values with kind)",
         "trusted: Debug form of ast::Rule for AST equality; the engine on the original text as reference", "3/C09"),
 "C15": ("fault_enumeration", "controlling scheduler over cfg-guarded hook points (real threads, one granted at a time, blocked-thread detection) + crash images (directory copies at quiescent steps) recovered by the real StorageEngine::new",
         "held on every explored schedule and every crash image of the run: the served state is the serial-order state, survives a restart, and every crash image opens, contains every acknowledged insert and no acknowledged delete / unbegun insert",
         "crash model A (completed writes durable; image = copy while all writers are parked); schedules are seeded random walks over the hook points, not exhaustive", "3/C15"),
 "C17": ("exploration", "model-based run-time monitor over hostile-name histories (registry model with incarnation-tagged tuples) + scheduler-driven interleavings of insert vs drop/re-create",
         "held on every history and schedule of the run apart from the listed known finding (shard file-name collision between `a`/`b_c` and `a_b`/`c`): every KG's facts/rules/schemas equal the model after each operation and restart; nothing of a dropped incarnation is visible in a re-created KG",
         "trusted: the registry model; schedules are seeded random walks over the insert/drop/create hook points", "3/C17"),
 "C13": ("fault_enumeration", "crash-point enumeration: strace-recorded file-system mutation log replayed prefix by prefix into crash images, each recovered by the real StorageEngine::new in a fresh process and compared with a prefix model",
         "held on every crash image of the run (an image after every file-system mutation of every generated history; quick samples at most 120 per history): recovery succeeds and the recovered facts/KG list equal the model after k operations, acknowledged <= k <= begun",
         "crash model A (completed syscalls durable); strace fidelity; single-threaded histories; the torn-write lane runs in the thorough tier only", "3/C13"),
 "C16": ("fault_enumeration", "crash-point enumeration over catalog histories (same machinery as C13) with a catalog model (rule names + clause counts, schema names)",
         "held on every crash image of the run: the store opens and the recovered rule/schema catalogs are the pre- or post-operation catalogs; without a crash a restart shows exactly the acknowledged catalogs",
         "crash model A; rules compared by name and clause count", "3/C16"),
 "C18": ("exploration", "differential run-time monitor: store with incremental maintenance vs twin without vs fresh reference evaluation, after every history step",
         "held on every history of the run: every derived relation answers alike on the incremental store, the plain store and a fresh reference evaluation of the current rules over the current facts, after every step (incremental enabled directly or through `.index create`, at the start or mid-history)",
         "trusted: reference evaluator; on the pinned tree auto-materialisation never publishes anything, so this check mostly guards against changes that make it live", "3/C18"),
 "C19": ("exploration", "model-based run-time monitor of consistent reads after every write + scheduler-driven reader/writer interleavings with begun/acknowledged stamps",
         "held on every history and schedule of the run: read_relation_consistent equals the set model at quiescent points; under concurrency every read succeeds, contains all writes acknowledged before it began and nothing unwritten or deleted-before",
         "trusted: set model; seeded random schedules over the insert/delete hook points", "3/C19"),
 "C20": ("exploration", "history checker over scheduler-driven interleavings (plus a free-running lane with large batches): every read must be a whole-batch prefix state inside its [acknowledged-at-call, begun-at-return] window; writers read their own writes",
         "held on every read of every explored schedule of the run: answers consist of whole batches, equal the writer's state after j operations with acknowledged-at-call <= j <= begun-at-return, and own reads equal the own state",
         "trusted: boundary stamps taken by the reading thread; one writer per relation; seeded random schedules", "3/C20"),
 "C10": ("exploration", "history checker over concurrent sessions + persistent writer on one Handler: every session answer must be the model answer for the persistent state after some admissible number of writer requests (inserts and deletes) inside its call/return window plus the session's own facts and rules; leak checks afterwards",
         "held on every query of every history of the run: answers equal the model for an admissible prefix; no session fact/rule of another session is visible; persistent facts and rules are untouched; request-local facts/rules leave nothing behind",
         "trusted: boundary stamps taken by the session thread; free-running threads with random pauses (handler work runs on tokio's blocking pool, outside the scheduler)", "3/C10"),
}
NOT_YET = "monitor not built yet in this round (design in DESIGN.md section 3); not claimed until a check exists"

def main():
    props = [json.loads(l) for l in open('/verif/properties.jsonl')]
    checks, na = [], []
    for p in props:
        i = p['id']
        if i in CHECKS and CHECKS[i] is not None:
            cat, tech, text, note, ref = CHECKS[i]
            checks.append({
                "property_id": i,
                "quick_cmd": f"./check {i} quick",
                "thorough_cmd": f"./check {i} thorough",
                "evidence_file": f"/verif/evidence/{i}.json",
                "replay_cmd_template": "./target/release/ilv replay {path}",
                "engine": "ilv",
                "level_claimed": {"category": cat, "text": text, "design_ref": f"DESIGN.md section {ref}"},
                "level_note": note,
                "technique": tech,
            })
        else:
            na.append({"property_id": i, "reason": NA.get(i, NOT_YET)})
    hooks_commits = HOOK_COMMITS
    m = {
        "version": 1,
        "setup_cmd": "cd /verif/harness && CARGO_NET_OFFLINE=true cargo build --release --offline",
        "hooks": {
            "guard": "--cfg inputlayer_verif",
            "enable": "RUSTFLAGS='--cfg inputlayer_verif' via /verif/harness/.cargo/config.toml ([build] rustflags); the harness crate path-depends on /repo, so every check rebuilds inputlayer from /repo's working tree with the hooks compiled in",
            "baseline_off_cmd": BASELINE,
            "source_commits": hooks_commits,
            "add_only": True,
        },
        "engines": [{"name": "ilv", "path": "/verif/harness", "serves_properties": [c["property_id"] for c in checks],
                     "kind_free_text": "Rust binary linking the real inputlayer crate: seeded workload generators + run-time monitors/oracles, one subcommand per property; shards cases over worker processes"}],
        "checks": checks,
        "not_applicable": na,
        "notes": "Technique family: runtime monitoring. Exit 0 = held on everything explored (KNOWN-FINDING lines for defects listed in known_findings.json); exit 1 + VIOLATION line otherwise; exit 2 = harness build failure (no verdict). INCONCLUSIVE lines mark runs that observed too little.",
    }
    json.dump(m, open('/verif/MANIFEST.json', 'w'), indent=1)
    print(len(checks), "claimed;", len(na), "not claimed")

NA = {}
HOOK_COMMITS = ["bd301f9"]
if __name__ == '__main__':
    main()
