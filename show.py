#!/usr/bin/env python3
# debugging aid: print minimised witnesses from replay files (usage: show.py C01 [filter])
import json,sys,glob
pat=sys.argv[1]; flt=sys.argv[2] if len(sys.argv)>2 else ''
seen={}
for f in sorted(glob.glob(f'/verif/replays/{pat}-*.json')):
    j=json.load(open(f)); w=j['witness']
    if flt and flt not in j['signature']: continue
    seen[j['signature']]=seen.get(j['signature'],0)+1
    if seen[j['signature']]>3: continue
    print("##",j['signature'],f.split('/')[-1])
    m=w.get('minimised')
    if m:
        print("  "+" ; ".join(m['program']), {k:v for k,v in m['edb'].items() if v})
        for k in w:
            if k not in ('minimised','original'): print("   ",k,json.dumps(w[k])[:300])
    else:
        print("  ",json.dumps(w)[:1500])
