#!/usr/bin/env python3
"""Print the prompt for a fresh sub-agent that seeds a property-breaking change (gets only the property text)."""
import json, sys
pid = sys.argv[1]; variant = sys.argv[2] if len(sys.argv) > 2 else "a"
wt = f"/tmp/wt-{pid}{variant}"
p = next(json.loads(l) for l in open('/verif/properties.jsonl') if json.loads(l)['id'] == pid)
print(f"""You are helping evaluate a verification effort for the Rust project inputlayer (a Datalog-style incremental rules engine: parser, IR optimizer, Differential Dataflow codegen, WAL-backed persistence, provenance, HNSW vector search). You work ONLY inside your own scratch git worktree at {wt} (already created from the project's current HEAD). Never touch /repo or /verif, never read anything under /verif. There is no network: always pass --offline to cargo. Use `export CARGO_TARGET_DIR={wt}/target` for every cargo command so you do not share build output with anyone.

The property below is supposed to hold for the code base:

  {p['id']} — {p['title']}
  Statement: {p['statement']}
  Quantified over: {p['quantifier']['text']}
  Code it is anchored in: {', '.join(p['anchors']['files'])}

Your task: write a realistic change (a plausible bug a maintainer could introduce: a refactoring slip, an "optimisation", an off-by-one, a dropped check, a reordered step, a missed case) to the project's source under {wt}/src that BREAKS this property while the project still compiles and its existing tests still pass. The change must need something specific in order to manifest — a particular kind of input or program shape, a multi-step sequence of operations, a crash/fault at a particular point, a particular interleaving, an unusual value, or two cooperating sites that each look fine alone — NOT something that ordinary use or the first smoke test would expose at once. Keep it small (a few lines to a few dozen), do not touch tests, do not add dependencies, and do not add cfg flags or features.

Also write a demonstration: a new integration test file {wt}/tests/seeded_{pid.lower()}{variant}_demo.rs (or, if easier, a small example program) that FAILS with your change applied and PASSES without it (check both by applying/reverting a patch file: `git diff -- src > /tmp/x.diff && git apply -R /tmp/x.diff` ... `git apply /tmp/x.diff`; do NOT use `git stash`, the stash is shared between all worktrees of this repository and other people are working in parallel). The demonstration should use the crate's public API (crate name `inputlayer`).

Then check that the existing tests still pass with your change: at least `cargo test --offline --lib` plus the integration tests that look related to the code you touched (`cargo test --offline --test <name>`). Running the whole suite takes long (it has ~3200 tests in 32 binaries) and every integration-test binary costs ~1 GB of disk in your target directory, and disk is scarce on this shared machine: run `cargo test --offline --lib` plus AT MOST FOUR integration-test binaries (the ones most related to your change), keep your target directory under ~12 GB (check with `du -sh`), and say exactly what you ran. The first build may take 20+ minutes because the machine is busy; be patient and avoid needless rebuilds. If an existing test fails because of your change, pick a different change.

When done, write these files:
  {wt}/seed/patch.diff      — `git diff` of your source change ONLY (src/ files; not the demo test)
  {wt}/seed/demo.rs         — a copy of your demonstration test file
  {wt}/seed/meta.json       — {{"property": "{pid}", "summary": "...what the change does...", "needs": "...what is needed for it to manifest...", "demo_cmd": "...", "tests_run": ["..."], "files_touched": ["..."]}}
Finish by replying with a short summary: what you changed, what it needs to manifest, how the demo fails/passes, and which existing tests you ran. Do not clean up the worktree; leave it as is (with the change applied).""")
