#!/bin/bash
# usage: validate_seed.sh <seed dir with patch.diff + demo.rs> <demo test name>
# Independent confirmation of a seeded change in ONE shared scratch worktree (/tmp/seedval, own target dir,
# so disk use stays bounded): demo fails with the change, the whole existing suite passes with it,
# demo passes without it. Result goes to <seed dir>/validation.txt.
seed="$1"; demo="$2"; wt=/tmp/seedval; out="$seed/validation.txt"
export CARGO_TARGET_DIR="$wt/target" CARGO_NET_OFFLINE=true
cd "$wt" || exit 2
git checkout -q -- . ; git clean -fdq tests/ ; git checkout -q --detach "$(git -C /repo rev-parse HEAD)" 2>/dev/null
{
echo "== validation of $seed at $(date -u +%FT%TZ) on $(git rev-parse --short HEAD)"
git apply "$seed/patch.diff" || { echo "PATCH DOES NOT APPLY"; exit 1; }
git status --short | head
echo "-- full suite WITH change (expected: all pass; demo not yet present)"
cargo nextest run --workspace --no-fail-fast --tool-config-file pb:/w/lib/nextest.toml --profile pb --test-threads 8 --offline > /tmp/seedval_suite.log 2>&1
grep -E "Summary|FAIL|error(\[|:)" /tmp/seedval_suite.log | sort -u | head -20
# a test that failed under load (the suite has wall-clock performance tests) is re-run alone
for t in $(grep -E "^\s+FAIL " /tmp/seedval_suite.log | awk '{print $NF}' | sort -u | head -10); do
  echo "-- re-run alone: $t"
  cargo nextest run --workspace --tool-config-file pb:/w/lib/nextest.toml --profile pb --test-threads 1 --offline -E "test(=$t)" 2>&1 | grep -E "Summary|PASS|FAIL" | sort -u | head -5
done
cp "$seed/demo.rs" "tests/$demo.rs"
echo "-- demo WITH change (expected: fails)"
RUSTFLAGS="$DEMO_RUSTFLAGS" cargo test --offline --test "$demo" 2>&1 | grep -E "^test result|^test .*(FAILED|ok)$|error(\[|:)" | head -20
echo "-- demo WITHOUT change (expected: passes)"
git apply -R "$seed/patch.diff" && RUSTFLAGS="$DEMO_RUSTFLAGS" cargo test --offline --test "$demo" 2>&1 | grep -E "^test result|error(\[|:)" | head -5
rm -f "tests/$demo.rs"; git checkout -q -- .
echo "== done"
} > "$out" 2>&1
