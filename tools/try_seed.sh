#!/bin/sh
# usage: try_seed.sh <patch.diff> <tier> <ID>...   — apply a seeded change to /repo, run checks, undo
patch="$1"; tier="$2"; shift 2
cd /repo || exit 2
if ! git diff --quiet; then echo "/repo has uncommitted changes; refusing"; exit 2; fi
git apply "$patch" || { echo "patch does not apply"; exit 2; }
cd /verif
for id in "$@"; do
  echo "=== $id ($tier) with $(basename $(dirname $patch)) applied"
  ./check "$id" "$tier" > /tmp/try_seed.out 2>&1; code=$?
  grep -v "^KNOWN-FINDING" /tmp/try_seed.out | cut -c1-300 | head -${SEED_LINES:-12}
  echo "exit=$code"
done
git -C /repo checkout -- . ; git -C /repo status --short | head -3
