#!/bin/bash
# usage: validate_seed.sh <worktree> <demo test name>  — independent confirmation of a seeded change:
# demo fails with the change, whole existing suite passes with it, demo passes without it.
wt="$1"; demo="$2"; out="$wt/seed/validation.txt"
export CARGO_TARGET_DIR="$wt/target" CARGO_NET_OFFLINE=true
cd "$wt" || exit 2
{
echo "== validation of $wt at $(date -u +%FT%TZ)"
git status --short | head
echo "-- demo WITH change (expected: fails)"
cargo test --offline --test "$demo" 2>&1 | grep -E "^test result|^test .*(FAILED|ok)$|error(\[|:)" | head -20
echo "-- full suite WITH change (expected: all pass)"
# the demo test itself is excluded from the 'existing tests'
mv "tests/$demo.rs" "/tmp/$demo.rs.hold"
cargo nextest run --workspace --no-fail-fast --tool-config-file pb:/w/lib/nextest.toml --profile pb --test-threads 8 --offline 2>&1 | grep -E "Summary|FAIL|error(\[|:)" | head -20
mv "/tmp/$demo.rs.hold" "tests/$demo.rs"
echo "-- demo WITHOUT change (expected: passes)"
git apply -R seed/patch.diff && cargo test --offline --test "$demo" 2>&1 | grep -E "^test result|error(\[|:)" | head -5
git apply seed/patch.diff
echo "== done"
} > "$out" 2>&1
