#!/bin/bash
# tools/sweep.sh <tier> <seed> [ids...] : run checks sequentially, log summary lines
tier=$1; seed=$2; shift 2
ids="$@"; [ -z "$ids" ] && ids=$(jq -r '.checks[].property_id' /verif/MANIFEST.json)
log=/verif/target/sweep_${tier}_${seed}.log
: > $log
for id in $ids; do
  s=$(date +%s)
  out=$(VERIF_SEED=$seed /verif/check $id $tier 2>&1); rc=$?
  e=$(date +%s)
  echo "$id rc=$rc secs=$((e-s)) $(echo "$out" | grep -E '^(VIOLATION|INCONCLUSIVE|BUILD-FAILED)' | head -3 | tr '\n' ' ') kf=$(echo "$out" | grep -c '^KNOWN-FINDING')" >> $log
done
echo DONE >> $log
