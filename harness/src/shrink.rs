//! Greedy witness minimisation for generated programs (clauses, body literals, EDB tuples).

use crate::gen::GenProgram;
use crate::refdl::*;
use std::collections::BTreeSet;

fn valid(p: &GenProgram) -> bool {
    if !p.clauses.iter().any(|c| c.head == p.query) {
        return false;
    }
    // the query head must stay contiguous at the end (engine returns the last head)
    if p.clauses.last().map(|c| c.head.as_str()) != Some(p.query.as_str()) {
        return false;
    }
    // every IDB atom used must still be defined or be an EDB relation
    let defined: BTreeSet<&str> = p.clauses.iter().map(|c| c.head.as_str()).collect();
    for c in &p.clauses {
        for l in &c.body {
            if let Lit::Pos(a) | Lit::Neg(a) = l {
                if !defined.contains(a.rel.as_str()) && !p.edb.contains_key(&a.rel) {
                    return false;
                }
            }
        }
        if check_safe(c).is_err() {
            return false;
        }
        if !c.body.iter().any(|l| matches!(l, Lit::Pos(_))) {
            return false;
        }
    }
    check_stratified(&p.clauses).is_ok()
}

/// Shrink `p` while `fails` keeps returning true. Bounded number of oracle calls.
pub fn shrink(p: &GenProgram, mut fails: impl FnMut(&GenProgram) -> bool, budget: usize) -> GenProgram {
    let mut cur = p.clone();
    let mut calls = 0;
    loop {
        let mut progressed = false;
        // remove clauses
        let mut i = 0;
        while i < cur.clauses.len() {
            let mut cand = cur.clone();
            cand.clauses.remove(i);
            calls += 1;
            if calls > budget {
                return cur;
            }
            if valid(&cand) && fails(&cand) {
                cur = cand;
                progressed = true;
            } else {
                i += 1;
            }
        }
        // remove body literals
        for ci in 0..cur.clauses.len() {
            let mut li = 0;
            while li < cur.clauses[ci].body.len() {
                let mut cand = cur.clone();
                cand.clauses[ci].body.remove(li);
                calls += 1;
                if calls > budget {
                    return cur;
                }
                if valid(&cand) && fails(&cand) {
                    cur = cand;
                    progressed = true;
                } else {
                    li += 1;
                }
            }
        }
        // remove EDB tuples
        let names: Vec<String> = cur.edb.keys().cloned().collect();
        for n in names {
            let tuples: Vec<Tup> = cur.edb[&n].iter().cloned().collect();
            for t in tuples {
                let mut cand = cur.clone();
                cand.edb.get_mut(&n).unwrap().remove(&t);
                calls += 1;
                if calls > budget {
                    return cur;
                }
                if fails(&cand) {
                    cur = cand;
                    progressed = true;
                }
            }
        }
        if !progressed {
            return cur;
        }
    }
}

/// Structural features of a (minimised) program, recomputed from the clauses themselves.
pub fn features(p: &GenProgram) -> BTreeSet<&'static str> {
    let mut f = BTreeSet::new();
    let comps = sccs(&p.clauses);
    if comps.iter().any(|c| c.len() > 1) {
        f.insert("mutual-recursion");
    }
    for c in &p.clauses {
        if c.pos_rels().contains(&c.head.as_str()) {
            f.insert("self-recursion");
        }
        if !c.neg_rels().is_empty() {
            f.insert("negation");
        }
        if c.has_agg() {
            f.insert("aggregate");
        }
        if c.body.iter().any(|l| matches!(l, Lit::Assign(..))) {
            f.insert("arith");
        }
        if c.body.iter().any(|l| matches!(l, Lit::Cmp(..))) {
            f.insert("comparison");
        }
        if c.pos_rels().len() >= 2 {
            f.insert("join");
        }
    }
    let hs = heads(&p.clauses);
    for h in hs {
        let cl: Vec<&Clause> = p.clauses.iter().filter(|c| c.head == h).collect();
        if cl.len() > 1 {
            f.insert("union");
            if cl.iter().filter(|c| c.pos_rels().len() >= 2).count() >= 2 {
                f.insert("union-of-join-clauses");
            }
        }
    }
    f
}
