//! Run context: case sharding, measured coverage, violations, known-finding filter, evidence.

use crate::rng::Rng;
use serde::{Deserialize, Serialize};
use serde_json::{json, Value as J};
use std::collections::{BTreeMap, BTreeSet};
use std::path::PathBuf;
use std::time::Instant;

#[derive(Clone, Copy, Debug, PartialEq, Eq)]
pub enum Tier {
    Quick,
    Thorough,
}
impl Tier {
    pub fn name(self) -> &'static str {
        match self {
            Tier::Quick => "quick",
            Tier::Thorough => "thorough",
        }
    }
    pub fn parse(s: &str) -> Tier {
        if s == "thorough" {
            Tier::Thorough
        } else {
            Tier::Quick
        }
    }
}

pub fn verif_root() -> PathBuf {
    PathBuf::from(std::env::var("VERIF_ROOT").unwrap_or_else(|_| "/verif".to_string()))
}

#[derive(Clone, Debug, Serialize, Deserialize)]
pub struct Violation {
    /// structural class of the failing input / call site (known-finding key)
    pub signature: String,
    pub what: String,
    pub case: u64,
    pub witness: J,
}

#[derive(Clone, Debug, Default, Serialize, Deserialize)]
pub struct Report {
    pub evaluations: u64,
    pub distinct: BTreeSet<u64>,
    pub samples: Vec<J>,
    pub counters: BTreeMap<String, u64>,
    pub violations: Vec<Violation>,
    pub inconclusive: Vec<String>,
    pub notes: BTreeMap<String, J>,
}

impl Report {
    pub fn merge(&mut self, o: Report) {
        self.evaluations += o.evaluations;
        self.distinct.extend(o.distinct);
        for s in o.samples {
            if self.samples.len() < 6 {
                self.samples.push(s);
            }
        }
        for (k, v) in o.counters {
            *self.counters.entry(k).or_insert(0) += v;
        }
        self.violations.extend(o.violations);
        for i in o.inconclusive {
            if self.inconclusive.len() < 50 {
                self.inconclusive.push(i);
            }
        }
        for (k, v) in o.notes {
            self.notes.entry(k).or_insert(v);
        }
    }
}

/// milliseconds (since process start) of the last sign of progress; read by the watchdog
pub static LAST_TICK_MS: std::sync::atomic::AtomicU64 = std::sync::atomic::AtomicU64::new(0);
pub static CURRENT_CASE: std::sync::atomic::AtomicU64 = std::sync::atomic::AtomicU64::new(u64::MAX);
static PROCESS_START: std::sync::OnceLock<Instant> = std::sync::OnceLock::new();
pub fn now_ms() -> u64 {
    PROCESS_START.get_or_init(Instant::now).elapsed().as_millis() as u64
}
pub fn tick() {
    LAST_TICK_MS.store(now_ms(), std::sync::atomic::Ordering::Relaxed);
}

pub struct Ctx {
    /// where a shard flushes partial reports (so that a watchdog kill loses little)
    pub flush_to: Option<PathBuf>,
    pub last_flush_evals: std::cell::Cell<u64>,
    pub last_flush_ms: std::cell::Cell<u64>,
    pub id: &'static str,
    pub tier: Tier,
    pub seed: u64,
    pub shard: (u64, u64),
    pub only_case: Option<u64>,
    /// skip every case <= this one (set when a shard is respawned after a hung case)
    pub resume_after: Option<u64>,
    pub report: Report,
    pub start: Instant,
}

impl Ctx {
    pub fn new(id: &'static str, tier: Tier, seed: u64, shard: (u64, u64), only_case: Option<u64>) -> Self {
        tick();
        Ctx { flush_to: None, last_flush_evals: std::cell::Cell::new(0), last_flush_ms: std::cell::Cell::new(0), id, tier, seed, shard, only_case, resume_after: None, report: Report::default(), start: Instant::now() }
    }
    pub fn quick(&self) -> bool {
        self.tier == Tier::Quick
    }
    /// pick a size by tier
    pub fn sz(&self, quick: u64, thorough: u64) -> u64 {
        if self.quick() {
            quick
        } else {
            thorough
        }
    }
    /// Case indices this shard is responsible for.
    pub fn cases(&self, total: u64) -> Vec<u64> {
        if let Some(k) = self.only_case {
            return vec![k];
        }
        let after = self.resume_after;
        (0..total).filter(|k| k % self.shard.1 == self.shard.0 && after.map_or(true, |a| *k > a)).collect()
    }
    pub fn rng(&self, case: u64) -> Rng {
        self.at_case(case);
        Rng::for_case(self.id, self.seed, case)
    }
    pub fn eval(&mut self) {
        self.evals(1);
    }
    pub fn evals(&mut self, n: u64) {
        self.report.evaluations += n;
        tick();
        if self.flush_to.is_some() && (self.report.evaluations - self.last_flush_evals.get() >= 40 || now_ms() - self.last_flush_ms.get() > 500) {
            self.flush();
        }
    }
    /// announce the case being worked on (watchdog diagnostics)
    pub fn at_case(&self, k: u64) {
        if self.flush_to.is_some() && self.report.evaluations != self.last_flush_evals.get() {
            self.flush(); // a watchdog kill during case k must not lose the cases before it
        }
        CURRENT_CASE.store(k, std::sync::atomic::Ordering::Relaxed);
        tick();
    }
    pub fn flush(&self) {
        if let Some(p) = &self.flush_to {
            self.last_flush_evals.set(self.report.evaluations);
            self.last_flush_ms.set(now_ms());
            let tmp = p.with_extension("tmp");
            if std::fs::write(&tmp, serde_json::to_vec(&self.report).unwrap_or_default()).is_ok() {
                let _ = std::fs::rename(&tmp, p);
            }
        }
    }
    /// debugging aid: ILV_TRACE=1 prints every case before it runs
    pub fn trace(&self, f: impl FnOnce() -> String) {
        if std::env::var("ILV_TRACE").is_ok() {
            eprintln!("[trace] {}", f());
        }
    }
    pub fn count(&mut self, key: &str) {
        *self.report.counters.entry(key.to_string()).or_insert(0) += 1;
    }
    pub fn count_n(&mut self, key: &str, n: u64) {
        *self.report.counters.entry(key.to_string()).or_insert(0) += n;
    }
    /// Record a distinct non-trivial case (hash of its structure).
    pub fn nontrivial(&mut self, h: u64) {
        self.report.distinct.insert(h);
    }
    pub fn nontrivial_str(&mut self, s: &str) {
        self.report.distinct.insert(crate::rng::hash_str(s));
    }
    pub fn sample(&mut self, s: J) {
        if self.report.samples.len() < 4 {
            self.report.samples.push(s);
        }
    }
    pub fn note(&mut self, k: &str, v: J) {
        self.report.notes.insert(k.to_string(), v);
    }
    pub fn inconclusive(&mut self, why: String) {
        self.count("inconclusive_cases");
        if self.report.inconclusive.len() < 20 {
            self.report.inconclusive.push(why);
        }
    }
    pub fn violation(&mut self, case: u64, signature: &str, what: String, witness: J) {
        self.count("violations_raw");
        // keep at most 8 witnesses per signature per shard
        let n = self.report.violations.iter().filter(|v| v.signature == signature).count();
        if n < 8 {
            self.report.violations.push(Violation { signature: signature.to_string(), what, case, witness });
        } else {
            self.count(&format!("violations_dropped:{signature}"));
        }
    }
}

/// Static description of a check, used for the evidence file.
pub struct Meta {
    pub id: &'static str,
    pub level: &'static str,
    pub rule: &'static str,
    pub assumptions: &'static [&'static str],
    /// below this many distinct non-trivial cases the run is inconclusive
    pub floor: u64,
    /// watchdog (ms without progress) for (quick, thorough); 0 = default
    pub watchdog: (u64, u64),
}
impl Meta {
    pub fn watchdog_ms(&self, tier: Tier) -> u64 {
        let w = if tier == Tier::Quick { self.watchdog.0 } else { self.watchdog.1 };
        if w == 0 {
            if tier == Tier::Quick { 20_000 } else { 60_000 }
        } else {
            w
        }
    }
}

#[derive(Debug, Deserialize)]
struct KnownFinding {
    property: String,
    signature: String,
    status: String,
    what: String,
}
#[derive(Debug, Deserialize)]
struct KnownFile {
    findings: Vec<KnownFinding>,
}

/// exact match, or prefix match when the listed signature ends in `*`
fn sig_matches(listed: &str, got: &str) -> bool {
    match listed.strip_suffix('*') {
        Some(p) => got.starts_with(p),
        None => listed == got,
    }
}

fn load_known() -> Vec<KnownFinding> {
    let p = verif_root().join("known_findings.json");
    match std::fs::read_to_string(&p) {
        Ok(s) => match serde_json::from_str::<KnownFile>(&s) {
            Ok(k) => k.findings,
            Err(e) => {
                eprintln!("warning: cannot parse {}: {e}", p.display());
                vec![]
            }
        },
        Err(_) => vec![],
    }
}

/// Write evidence, print verdict lines, return process exit code.
pub fn finalize(meta: &Meta, tier: Tier, seed: u64, report: &Report, wall_s: f64) -> i32 {
    let known = load_known();
    let root = verif_root();
    let _ = std::fs::create_dir_all(root.join("evidence"));
    let _ = std::fs::create_dir_all(root.join("replays"));

    // drop stale replay files of this (property, tier, seed)
    let prefix = format!("{}-{}-s{}-", meta.id, tier.name(), seed);
    if let Ok(rd) = std::fs::read_dir(root.join("replays")) {
        for e in rd.flatten() {
            if e.file_name().to_string_lossy().starts_with(&prefix) {
                let _ = std::fs::remove_file(e.path());
            }
        }
    }
    let mut known_seen: BTreeMap<String, (String, u64)> = BTreeMap::new();
    let mut new_viol: Vec<&Violation> = Vec::new();
    for v in &report.violations {
        if let Some(k) =
            known.iter().find(|k| k.status == "open" && k.property == meta.id && sig_matches(&k.signature, &v.signature))
        {
            let e = known_seen.entry(v.signature.clone()).or_insert((k.what.clone(), 0));
            e.1 += 1;
        } else {
            new_viol.push(v);
        }
    }
    let mut out = String::new();
    for (sig, (what, n)) in &known_seen {
        out.push_str(&format!("KNOWN-FINDING: property={} {} [{}; {} witness(es) this run]\n", meta.id, what, sig, n));
    }
    let mut exit = 0;
    let mut seen_sig: BTreeSet<&str> = BTreeSet::new();
    for (i, v) in new_viol.iter().enumerate() {
        let path = root.join("replays").join(format!("{}-{}-s{}-{}.json", meta.id, tier.name(), seed, i));
        let replay = json!({
            "property": meta.id, "tier": tier.name(), "seed": seed, "case": v.case,
            "signature": v.signature, "what": v.what, "witness": v.witness,
        });
        let _ = std::fs::write(&path, serde_json::to_string_pretty(&replay).unwrap_or_default());
        if seen_sig.insert(&v.signature) || i < 3 {
            out.push_str(&format!("VIOLATION property={} replay={}\n", meta.id, path.display()));
            out.push_str(&format!("  signature={} what={}\n", v.signature, v.what));
        }
        exit = 1;
    }
    let distinct = report.distinct.len() as u64;
    let inconclusive_run = exit == 0 && distinct < meta.floor;
    if inconclusive_run {
        out.push_str(&format!(
            "INCONCLUSIVE property={} reason=only {} distinct non-trivial cases observed (floor {})\n",
            meta.id, distinct, meta.floor
        ));
    }
    let mut coverage = serde_json::Map::new();
    coverage.insert("evaluations".into(), json!(report.evaluations));
    coverage.insert("distinct_nontrivial".into(), json!(distinct));
    coverage.insert("rule".into(), json!(meta.rule));
    let mut samples = report.samples.clone();
    if samples.is_empty() {
        samples.push(json!({"note": "no non-trivial case was sampled in this run"}));
    }
    coverage.insert("samples".into(), json!(samples));
    coverage.insert("counters".into(), json!(report.counters));
    coverage.insert(
        "known_findings_seen".into(),
        json!(known_seen.iter().map(|(k, v)| (k.clone(), v.1)).collect::<BTreeMap<_, _>>()),
    );
    coverage.insert("inconclusive_cases".into(), json!(report.inconclusive));
    coverage.insert("inconclusive".into(), json!(inconclusive_run));
    for (k, v) in &report.notes {
        coverage.insert(k.clone(), v.clone());
    }
    let ev = json!({
        "property_id": meta.id,
        "tier": tier.name(),
        "seed": seed,
        "level": meta.level,
        "coverage": J::Object(coverage),
        "assumptions": meta.assumptions,
        "wall_s": wall_s,
        "violations": new_viol.len(),
    });
    let evp = root.join("evidence").join(format!("{}.json", meta.id));
    let tmp = root.join("evidence").join(format!("{}.json.tmp", meta.id));
    let _ = std::fs::write(&tmp, serde_json::to_string_pretty(&ev).unwrap_or_default());
    let _ = std::fs::rename(&tmp, &evp);
    out.push_str(&format!(
        "{} {} seed={} evaluations={} distinct_nontrivial={} new_violations={} known_signatures={} wall={:.1}s\n",
        meta.id,
        tier.name(),
        seed,
        report.evaluations,
        distinct,
        new_viol.len(),
        known_seen.len(),
        wall_s
    ));
    print!("{out}");
    exit
}

// ---------------------------------------------------------------------------------------
// panic capture: engine panics must not kill the run and must not spam stderr

thread_local! {
    static LAST_PANIC: std::cell::RefCell<Option<String>> = const { std::cell::RefCell::new(None) };
}

pub fn install_quiet_panic_hook() {
    std::panic::set_hook(Box::new(|info| {
        let msg = info.to_string();
        LAST_PANIC.with(|p| *p.borrow_mut() = Some(msg.clone()));
        if std::env::var("ILV_VERBOSE").is_ok() {
            eprintln!("[panic] {msg}");
        }
    }));
}

/// Run `f`, turning a panic into `Err(message)`.
pub fn guarded<T>(f: impl FnOnce() -> T) -> Result<T, String> {
    match std::panic::catch_unwind(std::panic::AssertUnwindSafe(f)) {
        Ok(v) => Ok(v),
        Err(e) => {
            let msg = LAST_PANIC.with(|p| p.borrow_mut().take()).unwrap_or_else(|| {
                if let Some(s) = e.downcast_ref::<&str>() {
                    (*s).to_string()
                } else if let Some(s) = e.downcast_ref::<String>() {
                    s.clone()
                } else {
                    "panic".to_string()
                }
            });
            Err(format!("panic: {msg}"))
        }
    }
}
