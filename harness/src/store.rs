//! Helpers driving the real `StorageEngine` at its public boundary: scratch data directories,
//! configuration, restart, and complete dumps (facts, rules, schemas per knowledge graph).

use crate::ctx::guarded;
use inputlayer::{Config, DurabilityMode, StorageEngine, Tuple};
use serde_json::json;
use std::collections::BTreeMap;
use std::path::{Path, PathBuf};
use std::sync::atomic::{AtomicU64, Ordering};

static DIR_SEQ: AtomicU64 = AtomicU64::new(0);

/// A scratch directory under $TMPDIR, removed on drop.
pub struct Scratch {
    pub path: PathBuf,
    pub keep: bool,
}
impl Scratch {
    pub fn new(tag: &str) -> Scratch {
        // tmpfs when available: the workloads fsync on every write
        let base = std::env::var("ILV_SCRATCH").map(PathBuf::from).unwrap_or_else(|_| {
            let shm = PathBuf::from("/dev/shm");
            if shm.is_dir() && std::fs::create_dir_all(shm.join("ilv")).is_ok() {
                shm.join("ilv")
            } else {
                std::env::temp_dir()
            }
        });
        let path = base.join(format!("ilv-{tag}-{}-{}", std::process::id(), DIR_SEQ.fetch_add(1, Ordering::Relaxed)));
        let _ = std::fs::remove_dir_all(&path);
        std::fs::create_dir_all(&path).expect("create scratch dir");
        Scratch { path, keep: false }
    }
}
impl Drop for Scratch {
    fn drop(&mut self) {
        if !self.keep {
            let _ = std::fs::remove_dir_all(&self.path);
        }
    }
}

#[derive(Clone, Debug)]
pub struct StoreOpts {
    pub buffer_size: usize,
    pub durability: DurabilityMode,
    pub max_wal: Option<u64>,
    pub num_threads: usize,
    pub max_result_rows: usize,
    pub auto_create: bool,
}
impl Default for StoreOpts {
    fn default() -> Self {
        StoreOpts { buffer_size: 10_000, durability: DurabilityMode::Immediate, max_wal: None, num_threads: 1, max_result_rows: 0, auto_create: false }
    }
}

pub fn config(dir: &Path, o: &StoreOpts) -> Config {
    let mut c = Config::default();
    c.storage.data_dir = dir.to_path_buf();
    c.storage.persist.buffer_size = o.buffer_size;
    c.storage.persist.durability_mode = o.durability;
    if let Some(w) = o.max_wal {
        c.storage.persist.max_wal_size_bytes = w;
    }
    c.storage.performance.num_threads = o.num_threads;
    c.storage.performance.max_result_rows = o.max_result_rows;
    c.storage.auto_create_knowledge_graphs = o.auto_create;
    c
}

pub fn open(dir: &Path, o: &StoreOpts) -> Result<StorageEngine, String> {
    let c = config(dir, o);
    guarded(|| StorageEngine::new(c).map_err(|e| format!("{e}"))).and_then(|r| r)
}

/// facts of one KG: relation -> sorted tuples (duplicates preserved so that they can be detected)
pub type Facts = BTreeMap<String, Vec<Tuple>>;

#[derive(Clone, Debug, Default, PartialEq, Eq)]
pub struct KgDump {
    pub facts: Facts,
    /// rule name -> clause texts as `describe_rule_in` prints them
    pub rules: BTreeMap<String, String>,
    pub schemas: BTreeMap<String, String>,
}
pub type Dump = BTreeMap<String, KgDump>;

pub fn dump_facts(e: &StorageEngine, kg: &str) -> Result<Facts, String> {
    let (_rules, data) = e.get_rules_and_data(kg).map_err(|x| format!("{x}"))?;
    let mut out = Facts::new();
    for (rel, mut ts) in data {
        if ts.is_empty() {
            continue; // empty relations are not kept across restarts; normalise them away
        }
        ts.sort();
        out.insert(rel, ts);
    }
    Ok(out)
}

pub fn dump_kg(e: &StorageEngine, kg: &str) -> Result<KgDump, String> {
    let facts = dump_facts(e, kg)?;
    let mut rules = BTreeMap::new();
    for r in e.list_rules_in(kg).map_err(|x| format!("{x}"))? {
        let d = e.describe_rule_in(kg, &r).map_err(|x| format!("{x}"))?.unwrap_or_default();
        rules.insert(r, d);
    }
    let mut schemas = BTreeMap::new();
    for s in e.list_schemas_in(kg).map_err(|x| format!("{x}"))? {
        let d = e.get_schema_in(kg, &s).map_err(|x| format!("{x}"))?.map(|x| format!("{x:?}")).unwrap_or_default();
        schemas.insert(s, d);
    }
    Ok(KgDump { facts, rules, schemas })
}

pub fn dump_all(e: &StorageEngine) -> Result<Dump, String> {
    let mut out = Dump::new();
    let mut kgs = e.list_knowledge_graphs();
    kgs.sort();
    for kg in kgs {
        let d = dump_kg(e, &kg)?;
        out.insert(kg, d);
    }
    Ok(out)
}

pub fn tuple_str(t: &Tuple) -> String {
    format!("({})", t.values().iter().map(|v| format!("{v:?}")).collect::<Vec<_>>().join(", "))
}
pub fn facts_json(f: &Facts) -> serde_json::Value {
    json!(f.iter().map(|(k, v)| (k.clone(), v.iter().map(tuple_str).collect::<Vec<_>>())).collect::<BTreeMap<_, _>>())
}
pub fn dump_json(d: &Dump) -> serde_json::Value {
    json!(d.iter().map(|(k, v)| (k.clone(), json!({"facts": facts_json(&v.facts), "rules": v.rules, "schemas": v.schemas}))).collect::<BTreeMap<_, _>>())
}

/// first relation with a duplicate tuple, if any
pub fn duplicate_in(f: &Facts) -> Option<(String, String)> {
    for (r, ts) in f {
        for w in ts.windows(2) {
            if w[0] == w[1] {
                return Some((r.clone(), tuple_str(&w[0])));
            }
        }
    }
    None
}

pub fn ituple(xs: &[i64]) -> Tuple {
    Tuple::new(xs.iter().map(|x| inputlayer::Value::Int64(*x)).collect())
}
