//! RefDL: an independent, naive reference evaluator for stratified Datalog with comparisons,
//! integer arithmetic, stratified negation, recursion and non-recursive aggregation.
//! Shares no code with the crate under test. Used only as an oracle over observed answers.

use std::collections::{BTreeMap, BTreeSet, HashMap};
use std::fmt;

#[derive(Clone, Debug, PartialEq, Eq, PartialOrd, Ord, Hash)]
pub enum V {
    I(i64),
    S(String),
    /// f64 by bits (only produced by avg)
    F(u64),
}
impl V {
    pub fn f(x: f64) -> V {
        V::F(x.to_bits())
    }
    pub fn as_i(&self) -> Option<i64> {
        if let V::I(i) = self {
            Some(*i)
        } else {
            None
        }
    }
}
impl fmt::Display for V {
    fn fmt(&self, f: &mut fmt::Formatter<'_>) -> fmt::Result {
        match self {
            V::I(i) => write!(f, "{i}"),
            V::S(s) => write!(f, "\"{s}\""),
            V::F(b) => write!(f, "{:?}", f64::from_bits(*b)),
        }
    }
}

#[derive(Clone, Debug, PartialEq, Eq, Hash)]
pub enum Term {
    Var(String),
    C(V),
    Wild,
}
impl fmt::Display for Term {
    fn fmt(&self, f: &mut fmt::Formatter<'_>) -> fmt::Result {
        match self {
            Term::Var(v) => write!(f, "{v}"),
            Term::C(c) => write!(f, "{c}"),
            Term::Wild => write!(f, "_"),
        }
    }
}

#[derive(Clone, Debug, PartialEq, Eq, Hash)]
pub struct Atom {
    pub rel: String,
    pub args: Vec<Term>,
}
impl fmt::Display for Atom {
    fn fmt(&self, f: &mut fmt::Formatter<'_>) -> fmt::Result {
        write!(f, "{}(", self.rel)?;
        for (i, a) in self.args.iter().enumerate() {
            if i > 0 {
                write!(f, ", ")?;
            }
            write!(f, "{a}")?;
        }
        write!(f, ")")
    }
}

#[derive(Clone, Copy, Debug, PartialEq, Eq, Hash)]
pub enum Cmp {
    Eq,
    Ne,
    Lt,
    Le,
    Gt,
    Ge,
}
impl Cmp {
    pub fn sym(self) -> &'static str {
        match self {
            Cmp::Eq => "=",
            Cmp::Ne => "!=",
            Cmp::Lt => "<",
            Cmp::Le => "<=",
            Cmp::Gt => ">",
            Cmp::Ge => ">=",
        }
    }
    pub fn holds(self, a: &V, b: &V) -> Option<bool> {
        Some(match self {
            Cmp::Eq => a == b,
            Cmp::Ne => a != b,
            _ => {
                let (x, y) = (a.as_i()?, b.as_i()?);
                match self {
                    Cmp::Lt => x < y,
                    Cmp::Le => x <= y,
                    Cmp::Gt => x > y,
                    Cmp::Ge => x >= y,
                    _ => unreachable!(),
                }
            }
        })
    }
}

#[derive(Clone, Copy, Debug, PartialEq, Eq, Hash)]
pub enum Op {
    Add,
    Sub,
    Mul,
}
impl Op {
    pub fn sym(self) -> &'static str {
        match self {
            Op::Add => "+",
            Op::Sub => "-",
            Op::Mul => "*",
        }
    }
}

#[derive(Clone, Debug, PartialEq, Eq, Hash)]
pub enum Arith {
    T(Term),
    Bin(Box<Arith>, Op, Box<Arith>),
}
impl fmt::Display for Arith {
    fn fmt(&self, f: &mut fmt::Formatter<'_>) -> fmt::Result {
        match self {
            Arith::T(t) => write!(f, "{t}"),
            Arith::Bin(a, op, b) => {
                // fully parenthesised below the top level: no reliance on the engine's precedence
                let wrap = |x: &Arith| match x {
                    Arith::T(_) => format!("{x}"),
                    Arith::Bin(..) => format!("({x})"),
                };
                write!(f, "{} {} {}", wrap(a), op.sym(), wrap(b))
            }
        }
    }
}

#[derive(Clone, Debug, PartialEq, Eq, Hash)]
pub enum Lit {
    Pos(Atom),
    Neg(Atom),
    Cmp(Term, Cmp, Term),
    /// Var = arithmetic expression
    Assign(String, Arith),
}
impl fmt::Display for Lit {
    fn fmt(&self, f: &mut fmt::Formatter<'_>) -> fmt::Result {
        match self {
            Lit::Pos(a) => write!(f, "{a}"),
            Lit::Neg(a) => write!(f, "!{a}"),
            Lit::Cmp(a, c, b) => write!(f, "{a} {} {b}", c.sym()),
            Lit::Assign(v, e) => write!(f, "{v} = {e}"),
        }
    }
}

#[derive(Clone, Copy, Debug, PartialEq, Eq, Hash)]
pub enum AggFn {
    Count,
    CountDistinct,
    Sum,
    Min,
    Max,
    Avg,
}
impl AggFn {
    pub fn name(self) -> &'static str {
        match self {
            AggFn::Count => "count",
            AggFn::CountDistinct => "count_distinct",
            AggFn::Sum => "sum",
            AggFn::Min => "min",
            AggFn::Max => "max",
            AggFn::Avg => "avg",
        }
    }
}

#[derive(Clone, Debug, PartialEq, Eq, Hash)]
pub enum HeadArg {
    T(Term),
    Agg(AggFn, String),
}
impl fmt::Display for HeadArg {
    fn fmt(&self, f: &mut fmt::Formatter<'_>) -> fmt::Result {
        match self {
            HeadArg::T(t) => write!(f, "{t}"),
            HeadArg::Agg(a, v) => write!(f, "{}<{v}>", a.name()),
        }
    }
}

#[derive(Clone, Debug, PartialEq, Eq, Hash)]
pub struct Clause {
    pub head: String,
    pub hargs: Vec<HeadArg>,
    pub body: Vec<Lit>,
}
impl Clause {
    pub fn has_agg(&self) -> bool {
        self.hargs.iter().any(|h| matches!(h, HeadArg::Agg(..)))
    }
    pub fn pos_rels(&self) -> Vec<&str> {
        self.body.iter().filter_map(|l| if let Lit::Pos(a) = l { Some(a.rel.as_str()) } else { None }).collect()
    }
    pub fn neg_rels(&self) -> Vec<&str> {
        self.body.iter().filter_map(|l| if let Lit::Neg(a) = l { Some(a.rel.as_str()) } else { None }).collect()
    }
}
impl fmt::Display for Clause {
    fn fmt(&self, f: &mut fmt::Formatter<'_>) -> fmt::Result {
        write!(f, "{}(", self.head)?;
        for (i, a) in self.hargs.iter().enumerate() {
            if i > 0 {
                write!(f, ", ")?;
            }
            write!(f, "{a}")?;
        }
        write!(f, ") <- ")?;
        for (i, l) in self.body.iter().enumerate() {
            if i > 0 {
                write!(f, ", ")?;
            }
            write!(f, "{l}")?;
        }
        Ok(())
    }
}

pub type Tup = Vec<V>;
pub type Rel = BTreeSet<Tup>;
pub type Db = BTreeMap<String, Rel>;

pub fn program_text(cs: &[Clause]) -> String {
    cs.iter().map(|c| c.to_string()).collect::<Vec<_>>().join("\n")
}

#[derive(Debug, Clone, PartialEq, Eq)]
pub enum Reject {
    Unstratifiable(String),
    Unsafe(String),
    Overflow,
    TooBig,
}

// ---------------------------------------------------------------------------------------
// dependency analysis

/// IDB predicate names in order of first appearance.
pub fn heads(cs: &[Clause]) -> Vec<String> {
    let mut v: Vec<String> = Vec::new();
    for c in cs {
        if !v.contains(&c.head) {
            v.push(c.head.clone());
        }
    }
    v
}

/// Tarjan SCCs over IDB predicates; returned in reverse topological order of the
/// condensation reversed to evaluation order (dependencies first).
pub fn sccs(cs: &[Clause]) -> Vec<Vec<String>> {
    let hs = heads(cs);
    let idx: HashMap<&str, usize> = hs.iter().enumerate().map(|(i, h)| (h.as_str(), i)).collect();
    let n = hs.len();
    let mut adj: Vec<BTreeSet<usize>> = vec![BTreeSet::new(); n];
    for c in cs {
        let h = idx[c.head.as_str()];
        for l in &c.body {
            let r = match l {
                Lit::Pos(a) | Lit::Neg(a) => Some(a.rel.as_str()),
                _ => None,
            };
            if let Some(r) = r {
                if let Some(&j) = idx.get(r) {
                    adj[h].insert(j);
                }
            }
        }
    }
    // Tarjan (recursive is fine: n is tiny)
    struct St<'a> {
        adj: &'a [BTreeSet<usize>],
        index: Vec<Option<usize>>,
        low: Vec<usize>,
        on: Vec<bool>,
        stack: Vec<usize>,
        next: usize,
        out: Vec<Vec<usize>>,
    }
    fn go(s: &mut St, v: usize) {
        s.index[v] = Some(s.next);
        s.low[v] = s.next;
        s.next += 1;
        s.stack.push(v);
        s.on[v] = true;
        let ws: Vec<usize> = s.adj[v].iter().copied().collect();
        for w in ws {
            if s.index[w].is_none() {
                go(s, w);
                s.low[v] = s.low[v].min(s.low[w]);
            } else if s.on[w] {
                s.low[v] = s.low[v].min(s.index[w].unwrap());
            }
        }
        if s.low[v] == s.index[v].unwrap() {
            let mut comp = vec![];
            loop {
                let w = s.stack.pop().unwrap();
                s.on[w] = false;
                comp.push(w);
                if w == v {
                    break;
                }
            }
            s.out.push(comp);
        }
    }
    let mut st = St { adj: &adj, index: vec![None; n], low: vec![0; n], on: vec![false; n], stack: vec![], next: 0, out: vec![] };
    for v in 0..n {
        if st.index[v].is_none() {
            go(&mut st, v);
        }
    }
    // Tarjan emits SCCs dependencies-first (a component is emitted after everything it reaches)
    st.out.into_iter().map(|c| c.into_iter().map(|i| hs[i].clone()).collect()).collect()
}

/// Is the predicate part of a cycle (self-loop or SCC of size > 1)?
pub fn recursive_preds(cs: &[Clause]) -> BTreeSet<String> {
    let mut out = BTreeSet::new();
    for comp in sccs(cs) {
        if comp.len() > 1 {
            out.extend(comp);
        } else {
            let p = &comp[0];
            if cs.iter().any(|c| &c.head == p && (c.pos_rels().contains(&p.as_str()) || c.neg_rels().contains(&p.as_str()))) {
                out.insert(p.clone());
            }
        }
    }
    out
}

/// Independent stratifiability test: no negative (or aggregate) dependency inside an SCC.
pub fn check_stratified(cs: &[Clause]) -> Result<(), Reject> {
    for comp in sccs(cs) {
        let set: BTreeSet<&str> = comp.iter().map(String::as_str).collect();
        for c in cs.iter().filter(|c| set.contains(c.head.as_str())) {
            for r in c.neg_rels() {
                if set.contains(r) {
                    return Err(Reject::Unstratifiable(format!("{} depends negatively on {} in its own SCC", c.head, r)));
                }
            }
            if c.has_agg() {
                for r in c.pos_rels() {
                    if set.contains(r) {
                        return Err(Reject::Unstratifiable(format!("{} aggregates over {} in its own SCC", c.head, r)));
                    }
                }
            }
        }
    }
    Ok(())
}

fn term_vars(t: &Term, out: &mut BTreeSet<String>) {
    if let Term::Var(v) = t {
        out.insert(v.clone());
    }
}
fn arith_vars(a: &Arith, out: &mut BTreeSet<String>) {
    match a {
        Arith::T(t) => term_vars(t, out),
        Arith::Bin(x, _, y) => {
            arith_vars(x, out);
            arith_vars(y, out);
        }
    }
}

/// Range restriction: head vars, negated-atom vars, comparison vars and arithmetic inputs must be
/// bound by positive atoms (or by an assignment whose inputs are bound).
pub fn check_safe(c: &Clause) -> Result<(), Reject> {
    let mut bound: BTreeSet<String> = BTreeSet::new();
    for l in &c.body {
        if let Lit::Pos(a) = l {
            for t in &a.args {
                term_vars(t, &mut bound);
            }
        }
    }
    // assignments, to fixpoint
    loop {
        let mut changed = false;
        for l in &c.body {
            if let Lit::Assign(v, e) = l {
                let mut vs = BTreeSet::new();
                arith_vars(e, &mut vs);
                if vs.is_subset(&bound) && !bound.contains(v) {
                    bound.insert(v.clone());
                    changed = true;
                }
            }
        }
        if !changed {
            break;
        }
    }
    let mut need = BTreeSet::new();
    for h in &c.hargs {
        match h {
            HeadArg::T(t) => term_vars(t, &mut need),
            HeadArg::Agg(_, v) => {
                need.insert(v.clone());
            }
        }
    }
    for l in &c.body {
        match l {
            Lit::Neg(a) => {
                for t in &a.args {
                    term_vars(t, &mut need);
                }
            }
            Lit::Cmp(a, _, b) => {
                term_vars(a, &mut need);
                term_vars(b, &mut need);
            }
            Lit::Assign(v, e) => {
                need.insert(v.clone());
                arith_vars(e, &mut need);
            }
            Lit::Pos(_) => {}
        }
    }
    if let Some(v) = need.difference(&bound).next() {
        return Err(Reject::Unsafe(format!("variable {v} not range-restricted in {c}")));
    }
    Ok(())
}

// ---------------------------------------------------------------------------------------
// evaluation

pub type Env = BTreeMap<String, V>;

pub fn eval_arith(a: &Arith, env: &Env) -> Result<Option<i64>, Reject> {
    Ok(match a {
        Arith::T(Term::Var(v)) => env.get(v).and_then(V::as_i),
        Arith::T(Term::C(c)) => c.as_i(),
        Arith::T(Term::Wild) => None,
        Arith::Bin(x, op, y) => {
            let (Some(x), Some(y)) = (eval_arith(x, env)?, eval_arith(y, env)?) else { return Ok(None) };
            let r = match op {
                Op::Add => x.checked_add(y),
                Op::Sub => x.checked_sub(y),
                Op::Mul => x.checked_mul(y),
            };
            Some(r.ok_or(Reject::Overflow)?)
        }
    })
}

pub fn term_val<'a>(t: &'a Term, env: &'a Env) -> Option<&'a V> {
    match t {
        Term::Var(v) => env.get(v),
        Term::C(c) => Some(c),
        Term::Wild => None,
    }
}

/// match `atom` against `tup` extending env; returns None on mismatch
pub fn unify(atom: &Atom, tup: &Tup, env: &Env) -> Option<Env> {
    if atom.args.len() != tup.len() {
        return None;
    }
    let mut e = env.clone();
    for (t, v) in atom.args.iter().zip(tup.iter()) {
        match t {
            Term::Wild => {}
            Term::C(c) => {
                if c != v {
                    return None;
                }
            }
            Term::Var(x) => match e.get(x) {
                Some(b) => {
                    if b != v {
                        return None;
                    }
                }
                None => {
                    e.insert(x.clone(), v.clone());
                }
            },
        }
    }
    Some(e)
}

static EMPTY: Rel = BTreeSet::new();

/// One satisfying body valuation: the environment plus, for aggregation's "every `_` is a
/// fresh variable" reading, the tuples matched by the positive atoms.
#[derive(Clone, Debug, PartialEq, Eq, PartialOrd, Ord)]
pub struct Valuation {
    pub env: Env,
    pub matched: Vec<Tup>,
}

/// All satisfying valuations of a clause body over `db`.
pub fn body_valuations(c: &Clause, db: &Db) -> Result<Vec<Valuation>, Reject> {
    let mut envs: Vec<Valuation> = vec![Valuation { env: Env::new(), matched: vec![] }];
    // 1. positive atoms in order
    for l in &c.body {
        if let Lit::Pos(a) = l {
            let rel = db.get(&a.rel).unwrap_or(&EMPTY);
            let mut next = Vec::new();
            for val in &envs {
                for tup in rel {
                    if let Some(e2) = unify(a, tup, &val.env) {
                        let mut m = val.matched.clone();
                        m.push(tup.clone());
                        next.push(Valuation { env: e2, matched: m });
                    }
                }
            }
            envs = next;
            if envs.len() > 200_000 {
                return Err(Reject::TooBig);
            }
        }
    }
    // 2. assignments to fixpoint (an assignment to an already-bound variable is an equality test)
    let assigns: Vec<(&String, &Arith)> =
        c.body.iter().filter_map(|l| if let Lit::Assign(v, e) = l { Some((v, e)) } else { None }).collect();
    let mut done = vec![false; assigns.len()];
    loop {
        let mut progressed = false;
        for (i, (v, e)) in assigns.iter().enumerate() {
            if done[i] {
                continue;
            }
            let mut vs = BTreeSet::new();
            arith_vars(e, &mut vs);
            let ready = envs.first().is_none_or(|val| vs.iter().all(|x| val.env.contains_key(x)));
            if !ready {
                continue;
            }
            done[i] = true;
            progressed = true;
            let mut next = Vec::new();
            for mut val in envs {
                match eval_arith(e, &val.env)? {
                    None => {} // non-integer operand: no binding (generator never produces this)
                    Some(r) => match val.env.get(*v) {
                        Some(b) => {
                            if *b == V::I(r) {
                                next.push(val);
                            }
                        }
                        None => {
                            val.env.insert((*v).clone(), V::I(r));
                            next.push(val);
                        }
                    },
                }
            }
            envs = next;
        }
        if !progressed {
            break;
        }
    }
    // 3. comparisons and negation
    let mut out = Vec::new();
    'env: for val in envs {
        for l in &c.body {
            match l {
                Lit::Cmp(a, op, b) => {
                    let (Some(x), Some(y)) = (term_val(a, &val.env), term_val(b, &val.env)) else { continue 'env };
                    match op.holds(x, y) {
                        Some(true) => {}
                        _ => continue 'env,
                    }
                }
                Lit::Neg(a) => {
                    let rel = db.get(&a.rel).unwrap_or(&EMPTY);
                    if rel.iter().any(|t| unify(a, t, &val.env).is_some()) {
                        continue 'env;
                    }
                }
                _ => {}
            }
        }
        out.push(val);
    }
    Ok(out)
}

fn head_tuple(c: &Clause, env: &Env) -> Option<Tup> {
    c.hargs
        .iter()
        .map(|h| match h {
            HeadArg::T(t) => term_val(t, env).cloned(),
            HeadArg::Agg(..) => None,
        })
        .collect()
}

/// Aggregate clause evaluation per C06's wording: one group per distinct value of the head's
/// plain terms; one contribution per distinct body valuation (all variables, `_` fresh).
pub fn eval_aggregate(c: &Clause, db: &Db) -> Result<Rel, Reject> {
    let vals: BTreeSet<Valuation> = body_valuations(c, db)?.into_iter().collect();
    let mut groups: BTreeMap<Vec<V>, Vec<&Valuation>> = BTreeMap::new();
    for v in &vals {
        let key: Option<Vec<V>> = c
            .hargs
            .iter()
            .filter_map(|h| if let HeadArg::T(t) = h { Some(term_val(t, &v.env).cloned()) } else { None })
            .collect();
        if let Some(k) = key {
            groups.entry(k).or_default().push(v);
        }
    }
    let mut out = Rel::new();
    for (key, members) in groups {
        let mut ki = key.into_iter();
        let mut tup = Vec::new();
        let mut ok = true;
        for h in &c.hargs {
            match h {
                HeadArg::T(_) => tup.push(ki.next().unwrap()),
                HeadArg::Agg(f, var) => {
                    let xs: Vec<&V> = members.iter().filter_map(|m| m.env.get(var)).collect();
                    let ints: Option<Vec<i64>> = xs.iter().map(|v| v.as_i()).collect();
                    let v = match f {
                        AggFn::Count => Some(V::I(xs.len() as i64)),
                        AggFn::CountDistinct => Some(V::I(xs.iter().collect::<BTreeSet<_>>().len() as i64)),
                        AggFn::Sum => ints.map(|i| V::I(i.iter().sum())),
                        AggFn::Min => ints.and_then(|i| i.iter().min().copied()).map(V::I),
                        AggFn::Max => ints.and_then(|i| i.iter().max().copied()).map(V::I),
                        AggFn::Avg => ints.filter(|i| !i.is_empty()).map(|i| V::f(i.iter().sum::<i64>() as f64 / i.len() as f64)),
                    };
                    match v {
                        Some(v) => tup.push(v),
                        None => ok = false,
                    }
                }
            }
        }
        if ok {
            out.insert(tup);
        }
    }
    Ok(out)
}

pub struct Model {
    pub db: Db,
    /// minimal proof height of each derived tuple (EDB facts have height 0)
    pub depth: BTreeMap<(String, Tup), u32>,
}

/// Perfect model of `cs` over `edb`. `track_depth` additionally computes minimal proof heights.
pub fn evaluate(cs: &[Clause], edb: &Db, track_depth: bool) -> Result<Model, Reject> {
    check_stratified(cs)?;
    for c in cs {
        check_safe(c)?;
    }
    let mut db = edb.clone();
    let mut depth: BTreeMap<(String, Tup), u32> = BTreeMap::new();
    for comp in sccs(cs) {
        let set: BTreeSet<&str> = comp.iter().map(String::as_str).collect();
        let clauses: Vec<&Clause> = cs.iter().filter(|c| set.contains(c.head.as_str())).collect();
        for p in &comp {
            db.entry(p.clone()).or_default();
        }
        let mut rounds = 0;
        loop {
            rounds += 1;
            if rounds > 2000 {
                return Err(Reject::TooBig);
            }
            let mut changed = false;
            let mut newt: Vec<(String, Tup, u32)> = Vec::new();
            for c in &clauses {
                if c.has_agg() {
                    for t in eval_aggregate(c, &db)? {
                        newt.push((c.head.clone(), t, 1));
                    }
                    continue;
                }
                for val in body_valuations(c, &db)? {
                    if let Some(t) = head_tuple(c, &val.env) {
                        let d = if track_depth {
                            let mut m = 0;
                            let mut k = 0;
                            for l in &c.body {
                                if let Lit::Pos(a) = l {
                                    let dd = depth.get(&(a.rel.clone(), val.matched[k].clone())).copied().unwrap_or(0);
                                    m = m.max(dd);
                                    k += 1;
                                }
                            }
                            m + 1
                        } else {
                            1
                        };
                        newt.push((c.head.clone(), t, d));
                    }
                }
            }
            for (h, t, d) in newt {
                let rel = db.entry(h.clone()).or_default();
                if rel.len() > 20_000 {
                    return Err(Reject::TooBig);
                }
                if rel.insert(t.clone()) {
                    changed = true;
                }
                if track_depth {
                    let e = depth.entry((h, t)).or_insert(u32::MAX);
                    if d < *e {
                        *e = d;
                        changed = true;
                    }
                }
            }
            if !changed {
                break;
            }
        }
    }
    Ok(Model { db, depth })
}
