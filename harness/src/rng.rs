//! Small deterministic PRNG (xoshiro256** seeded by SplitMix64). No external crates.

#[derive(Clone, Debug)]
pub struct Rng {
    s: [u64; 4],
}

fn splitmix(x: &mut u64) -> u64 {
    *x = x.wrapping_add(0x9E37_79B9_7F4A_7C15);
    let mut z = *x;
    z = (z ^ (z >> 30)).wrapping_mul(0xBF58_476D_1CE4_E5B9);
    z = (z ^ (z >> 27)).wrapping_mul(0x94D0_49BB_1331_11EB);
    z ^ (z >> 31)
}

pub fn hash_str(s: &str) -> u64 {
    // FNV-1a
    let mut h: u64 = 0xcbf2_9ce4_8422_2325;
    for b in s.as_bytes() {
        h ^= u64::from(*b);
        h = h.wrapping_mul(0x0000_0100_0000_01b3);
    }
    h
}

impl Rng {
    pub fn new(seed: u64) -> Self {
        let mut x = seed;
        let s = [splitmix(&mut x), splitmix(&mut x), splitmix(&mut x), splitmix(&mut x)];
        Rng { s }
    }
    /// Derive an independent stream for (property, seed, case index).
    pub fn for_case(prop: &str, seed: u64, case: u64) -> Self {
        Rng::new(hash_str(prop) ^ seed.wrapping_mul(0xA24B_AED4_963E_E407) ^ case.wrapping_mul(0x9FB2_1C65_1E98_DF25))
    }
    pub fn next_u64(&mut self) -> u64 {
        let r = self.s[1].wrapping_mul(5).rotate_left(7).wrapping_mul(9);
        let t = self.s[1] << 17;
        self.s[2] ^= self.s[0];
        self.s[3] ^= self.s[1];
        self.s[1] ^= self.s[2];
        self.s[0] ^= self.s[3];
        self.s[2] ^= t;
        self.s[3] = self.s[3].rotate_left(45);
        r
    }
    /// Uniform in [0, n). n must be > 0.
    pub fn below(&mut self, n: usize) -> usize {
        (self.next_u64() % (n as u64)) as usize
    }
    /// Uniform in [lo, hi] inclusive.
    pub fn range(&mut self, lo: i64, hi: i64) -> i64 {
        lo + (self.next_u64() % ((hi - lo + 1) as u64)) as i64
    }
    pub fn chance(&mut self, num: u32, den: u32) -> bool {
        (self.next_u64() % u64::from(den)) < u64::from(num)
    }
    pub fn f64(&mut self) -> f64 {
        (self.next_u64() >> 11) as f64 / (1u64 << 53) as f64
    }
    pub fn pick<'a, T>(&mut self, xs: &'a [T]) -> &'a T {
        &xs[self.below(xs.len())]
    }
    pub fn shuffle<T>(&mut self, xs: &mut [T]) {
        for i in (1..xs.len()).rev() {
            let j = self.below(i + 1);
            xs.swap(i, j);
        }
    }
}
