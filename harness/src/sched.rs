//! Controlling scheduler over the cfg-guarded hook points of `inputlayer::verif_hooks`.
//!
//! Logical threads are spawned through [`Sched::run`]; at every hook point a registered thread parks
//! and the controller grants exactly one parked thread at a time, following a seeded random
//! strategy or a scripted choice list (replay / systematic exploration). A granted thread that
//! neither reaches its next point nor finishes within `BLOCK_MS` is taken to be blocked on a real
//! lock held by a parked thread: it stays runnable in the background and another thread is granted.
//! Threads the harness did not register (tokio workers, the incremental engine's worker, rayon)
//! pass through the points untouched.

use parking_lot::{Condvar, Mutex};
use std::cell::Cell;
use std::sync::Arc;
use std::time::{Duration, Instant};

const BLOCK_MS: u64 = 60;

thread_local! {
    static TID: Cell<Option<usize>> = const { Cell::new(None) };
}

#[derive(Clone, Copy, Debug, PartialEq, Eq)]
enum St {
    /// running (granted, or blocked on a real lock in the background)
    Running,
    /// parked at a hook point, waiting for a grant
    Parked(&'static str),
    Done,
}

struct State {
    th: Vec<St>,
    granted: Option<usize>,
    /// (thread, point) in grant order — the schedule actually executed
    trace: Vec<(usize, &'static str)>,
    /// number of alternatives at each decision and the one taken
    choices: Vec<(usize, usize)>,
    active: bool,
}

pub struct Sched {
    st: Mutex<State>,
    cv: Condvar,
}

#[derive(Clone, Debug)]
pub enum Strategy {
    Random(u64),
    /// take `script[i] % alternatives` at decision i, first alternative afterwards
    Script(Vec<usize>),
}

#[derive(Clone, Debug, Default)]
pub struct Outcome {
    pub trace: Vec<(usize, &'static str)>,
    pub choices: Vec<(usize, usize)>,
    pub timed_out: bool,
    /// callbacks observed: (decision index, label) e.g. crash images taken
    pub notes: Vec<String>,
}

impl Sched {
    pub fn new() -> Arc<Sched> {
        Arc::new(Sched { st: Mutex::new(State { th: vec![], granted: None, trace: vec![], choices: vec![], active: false }), cv: Condvar::new() })
    }

    fn on_point(&self, name: &'static str) {
        let Some(me) = TID.with(Cell::get) else { return };
        let mut g = self.st.lock();
        if !g.active || me >= g.th.len() {
            return;
        }
        g.th[me] = St::Parked(name);
        if g.granted == Some(me) {
            g.granted = None;
        }
        self.cv.notify_all();
        while g.active && g.granted != Some(me) {
            self.cv.wait(&mut g);
        }
        g.th[me] = St::Running;
    }

    /// Run the `bodies` as logical threads 0..n under `strategy`. `at_quiescence(step, parked points)`
    /// is called by the controller whenever every unfinished thread is parked (nothing runs): the
    /// instant at which a copy of the data directory is a faithful crash image.
    pub fn run<F>(self: &Arc<Self>, bodies: Vec<Box<dyn FnOnce() + Send>>, strategy: Strategy, budget: Duration, mut at_quiescence: F) -> Outcome
    where
        F: FnMut(usize, &[(usize, &'static str)]) -> Option<String>,
    {
        let n = bodies.len();
        {
            let mut g = self.st.lock();
            *g = State { th: vec![St::Running; n], granted: None, trace: vec![], choices: vec![], active: true };
        }
        let me = Arc::clone(self);
        inputlayer::verif_hooks::set_hook(Some(Arc::new(move |name| me.on_point(name))));
        let mut handles = Vec::new();
        for (i, b) in bodies.into_iter().enumerate() {
            let s = Arc::clone(self);
            handles.push(std::thread::spawn(move || {
                TID.with(|t| t.set(Some(i)));
                // every thread starts parked at a virtual point so that the first step is a decision too
                s.on_point("start");
                let r = std::panic::catch_unwind(std::panic::AssertUnwindSafe(b));
                let mut g = s.st.lock();
                if i < g.th.len() {
                    g.th[i] = St::Done;
                }
                if g.granted == Some(i) {
                    g.granted = None;
                }
                s.cv.notify_all();
                drop(g);
                TID.with(|t| t.set(None));
                r.is_ok()
            }));
        }
        let mut rng = crate::rng::Rng::new(match &strategy {
            Strategy::Random(s) => *s,
            Strategy::Script(_) => 0,
        });
        let start = Instant::now();
        let mut out = Outcome::default();
        let mut step = 0usize;
        loop {
            let mut g = self.st.lock();
            // wait until the granted thread parks/finishes, or is deemed blocked
            let deadline = Instant::now() + Duration::from_millis(BLOCK_MS);
            while g.granted.is_some() {
                if self.cv.wait_until(&mut g, deadline).timed_out() {
                    break;
                }
            }
            if g.th.iter().all(|s| *s == St::Done) {
                break;
            }
            if start.elapsed() > budget {
                out.timed_out = true;
                break;
            }
            let parked: Vec<(usize, &'static str)> = g.th.iter().enumerate().filter_map(|(i, s)| if let St::Parked(p) = s { Some((i, *p)) } else { None }).collect();
            if parked.is_empty() {
                // someone is running in the background (was blocked); give it time
                g.granted = None;
                self.cv.wait_for(&mut g, Duration::from_millis(5));
                continue;
            }
            let all_quiet = g.th.iter().all(|s| !matches!(s, St::Running));
            if all_quiet {
                drop(g);
                if let Some(note) = at_quiescence(step, &parked) {
                    out.notes.push(note);
                }
                g = self.st.lock();
            }
            let pick = match &strategy {
                Strategy::Random(_) => rng.below(parked.len()),
                Strategy::Script(s) => s.get(step).copied().unwrap_or(0) % parked.len(),
            };
            g.choices.push((parked.len(), pick));
            let (tid, point) = parked[pick];
            g.trace.push((tid, point));
            g.granted = Some(tid);
            step += 1;
            self.cv.notify_all();
        }
        // release everything
        {
            let mut g = self.st.lock();
            g.active = false;
            out.trace = g.trace.clone();
            out.choices = g.choices.clone();
            self.cv.notify_all();
        }
        for h in handles {
            let _ = h.join();
        }
        inputlayer::verif_hooks::set_hook(None);
        out
    }
}

pub fn trace_hash(t: &[(usize, &'static str)]) -> u64 {
    crate::rng::hash_str(&t.iter().map(|(i, p)| format!("{i}:{p}")).collect::<Vec<_>>().join(">"))
}

/// number of points at which control moved from one thread to another
pub fn alternations(t: &[(usize, &'static str)]) -> usize {
    t.windows(2).filter(|w| w[0].0 != w[1].0).count()
}

pub fn copy_dir(src: &std::path::Path, dst: &std::path::Path) -> std::io::Result<()> {
    std::fs::create_dir_all(dst)?;
    for e in std::fs::read_dir(src)? {
        let e = e?;
        let p = e.path();
        let d = dst.join(e.file_name());
        if p.is_dir() {
            copy_dir(&p, &d)?;
        } else {
            let _ = std::fs::copy(&p, &d);
        }
    }
    Ok(())
}
