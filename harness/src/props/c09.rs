//! C09 — rules behave the same inline, as session rules and as persistent rules.
//! (a) print/parse round trip of the rule text that the persistent/session paths rely on;
//! (b) the same executable rule through 5 paths must answer alike (values compared with their kind).

use crate::ctx::{guarded, Ctx, Meta};
use crate::hnd::{wire_str, H};
use crate::store::*;
use inputlayer::protocol::wire::WireValue;
use inputlayer::{parse_rule, IQLEngine, Tuple, Value};
use serde_json::json;
use std::collections::BTreeSet;

pub static META: Meta = Meta {
    id: "C09",
    level: "exploration",
    rule: "(a) generated rule texts over every term kind (ints incl. negative and i64 extremes; floats incl. integral 2.0, -0.0, 1e30, 1e-7; strings with spaces, quotes, backslashes, //, %, unicode; booleans; vector literals; arithmetic in every precedence/associativity shape incl. negative literals; builtin calls; aggregates; negation; comparisons): parse_rule(print(parse_rule(s))) must equal parse_rule(s) (Debug form, floats by value incl. sign) and the printed text must parse; (b) generated executable rules with head constants of every kind, float/string comparisons and arithmetic over a small EDB: the answer of IQLEngine::execute_tuples(text) must equal the answer through the handler as an inline session rule, as a WebSocket-session rule, as a persistent rule, and as a persistent rule after restart (values compared with their kind); non-trivial = rule with a float, string or arithmetic term; distinct = rule text",
    assumptions: &["AST equality through the Debug form of ast::Rule", "reference for (b) = the engine on the original text"],
    floor: 100,
    watchdog: (0, 0),
};

const INTS: [&str; 7] = ["0", "1", "-1", "42", "-17", "9223372036854775807", "-9223372036854775808"];
const FLOATS: [&str; 9] = ["2.0", "0.5", "-0.0", "3.14", "-2.5", "1.0e30", "1.0e-7", "100.0", "0.000001"];
const STRS: [&str; 9] = ["\"a\"", "\"hello world\"", "\"q\\\"uote\"", "\"back\\\\slash\"", "\"// not a comment\"", "\"% pct\"", "\"\u{e9}\u{4e2d}\"", "\"\"", "\"a,b(c)\""];

fn gen_const(r: &mut crate::rng::Rng) -> (String, &'static str) {
    match r.below(5) {
        0 => (r.pick(&INTS).to_string(), "int"),
        1 => (r.pick(&FLOATS).to_string(), "float"),
        2 => (r.pick(&STRS).to_string(), "string"),
        3 => (r.pick(&["true", "false"]).to_string(), "bool"),
        _ => (format!("[{}]", (0..(1 + r.below(3))).map(|_| r.pick(&["1.0", "2.5", "-0.5", "0.0"]).to_string()).collect::<Vec<_>>().join(", ")), "vector"),
    }
}

fn gen_arith(r: &mut crate::rng::Rng, depth: u32, vars: &[&str]) -> String {
    if depth == 0 || r.chance(2, 5) {
        return match r.below(4) {
            0 => r.pick(&["1", "2", "10", "-1", "-3"]).to_string(),
            1 => r.pick(&["0.5", "2.0", "1.5"]).to_string(),
            _ => r.pick(vars).to_string(),
        };
    }
    let op = *r.pick(&["+", "-", "*", "/", "%"]);
    let (l, rr) = (gen_arith(r, depth - 1, vars), gen_arith(r, depth - 1, vars));
    match r.below(4) {
        0 => format!("({l} {op} {rr})"),
        1 => format!("{l} {op} ({rr})"),
        _ => format!("{l} {op} {rr}"),
    }
}

fn gen_rule_text(r: &mut crate::rng::Rng) -> (String, BTreeSet<&'static str>) {
    let mut tags = BTreeSet::new();
    let vars = ["X", "Y", "Z"];
    let mut body: Vec<String> = vec![format!("r({})", vars.join(", "))];
    if r.chance(1, 2) {
        let args: Vec<String> = (0..2)
            .map(|_| {
                if r.chance(1, 2) {
                    let (c, k) = gen_const(r);
                    tags.insert(k);
                    c
                } else if r.chance(1, 4) {
                    "_".to_string()
                } else {
                    r.pick(&vars).to_string()
                }
            })
            .collect();
        body.push(format!("{}s({})", if r.chance(1, 4) { "!" } else { "" }, args.join(", ")));
    }
    if r.chance(1, 2) {
        let (c, k) = if r.chance(1, 2) { gen_const(r) } else { (r.pick(&vars).to_string(), "var") };
        tags.insert(k);
        body.push(format!("{} {} {c}", r.pick(&vars), r.pick(&["=", "!=", "<", "<=", ">", ">="])));
    }
    let mut head_extra = None;
    if r.chance(1, 2) {
        tags.insert("arith");
        body.push(format!("V = {}", gen_arith(r, 3, &vars)));
        head_extra = Some("V".to_string());
    } else if r.chance(1, 4) {
        tags.insert("function");
        body.push(format!("V = {}", r.pick(&["abs(X)", "euclidean([1.0, 2.0], [0.0, 0.5])", "abs(X - Y)"])));
        head_extra = Some("V".to_string());
    }
    let mut hargs: Vec<String> = vec![r.pick(&vars).to_string()];
    if r.chance(1, 2) {
        let (c, k) = gen_const(r);
        tags.insert(k);
        hargs.push(c);
    }
    if let Some(v) = head_extra {
        hargs.push(v);
    } else if r.chance(1, 4) {
        tags.insert("aggregate");
        hargs.push(format!("{}<{}>", r.pick(&["count", "sum", "min", "max", "avg"]), r.pick(&vars)));
    }
    (format!("h({}) <- {}", hargs.join(", "), body.join(", ")), tags)
}

fn norm_debug(rule: &inputlayer::ast::Rule) -> String {
    format!("{rule:?}")
}

fn val_str(v: &Value) -> String {
    wire_str(&WireValue::from_value(v))
}

pub fn run(ctx: &mut Ctx) {
    // ---------------- (a) round trip
    let total = ctx.sz(6000, 200_000);
    for k in ctx.cases(total) {
        let mut r = ctx.rng(k);
        let (text, tags) = gen_rule_text(&mut r);
        let Ok(Ok(ast1)) = guarded(|| parse_rule(&text)) else {
            ctx.count("generated_text_rejected_by_parser");
            continue;
        };
        ctx.eval();
        if tags.iter().any(|t| ["float", "string", "arith", "vector"].contains(t)) {
            ctx.nontrivial(crate::rng::hash_str(&text));
        }
        let printed = format!("{ast1}");
        let kinds = tags.iter().copied().collect::<Vec<_>>().join("+");
        match guarded(|| parse_rule(&printed)) {
            Ok(Ok(ast2)) => {
                if norm_debug(&ast1) != norm_debug(&ast2) {
                    // which kind of term changed? find the first differing token class
                    let (d1, d2) = (norm_debug(&ast1), norm_debug(&ast2));
                    let class = if d1.contains("FloatConstant") && !d2.contains("FloatConstant") || d1.matches("FloatConstant").count() != d2.matches("FloatConstant").count() {
                        "float-literal-changes-kind-or-value"
                    } else if d1.contains("StringConstant") && d1.matches('\\').count() != d2.matches('\\').count() {
                        "string-escape-lost"
                    } else if d1.contains("Binary") {
                        "arithmetic-shape-changed"
                    } else {
                        "other"
                    };
                    ctx.violation(k, &format!("C09:roundtrip:{class}"), format!("printing and re-parsing changes the rule: `{text}` prints as `{printed}`"), json!({"text": text, "printed": printed, "ast": d1.chars().take(600).collect::<String>(), "reparsed_ast": d2.chars().take(600).collect::<String>(), "kinds": kinds}));
                }
            }
            other => {
                let class = if text.contains('"') && (text.contains("\\\"") || text.contains("\\\\")) { "string-with-escapes" } else if tags.contains("float") { "float" } else { "other" };
                ctx.violation(k, &format!("C09:printed-rule-does-not-parse:{class}"), format!("`{text}` prints as `{printed}` which does not parse: {other:?}").chars().take(400).collect(), json!({"text": text, "printed": printed}));
            }
        }
        if k % 1500 == 0 {
            ctx.sample(json!({"rule_text": text, "printed": printed}));
        }
    }
    // ---------------- (b) the same rule through five paths
    let total = ctx.sz(64, 1600);
    for k in ctx.cases(total) {
        let mut r = ctx.rng(k ^ 0x9000_0000);
        // EDB: r(Int, Float, String)
        let rows: Vec<Tuple> = (0..6).map(|i| Tuple::new(vec![Value::Int64(i), Value::Float64(f64::from(i as i32) * 0.5), Value::string(["a", "b", "hello world"][(i % 3) as usize])])).collect();
        let hconst = match r.below(7) {
            6 => "[1.0, 2.5]".to_string(),
            0 => "2.0".to_string(),
            1 => "1.0e30".to_string(),
            2 => "-0.0".to_string(),
            3 => r.pick(&STRS).to_string(),
            4 => r.pick(&INTS).to_string(),
            _ => "true".to_string(),
        };
        let cond = match r.below(5) {
            0 => "Y > 1.0".to_string(),
            1 => "Y >= 0.5".to_string(),
            2 => "S = \"hello world\"".to_string(),
            3 => "X < 4".to_string(),
            _ => "X != 2".to_string(),
        };
        let (extra_body, extra_head) = match r.below(5) {
            0 => (", V = X * 2 + 1".to_string(), ", V".to_string()),
            1 => (", V = (X + 1) * 2".to_string(), ", V".to_string()),
            2 => (", V = X - -1".to_string(), ", V".to_string()),
            3 if r.chance(1, 2) => (", V = abs(X - 3)".to_string(), ", V".to_string()),
            _ => (String::new(), String::new()),
        };
        let rule = format!("h{k}(X, {hconst}{extra_head}) <- r(X, Y, S), {cond}{extra_body}");
        let arity = 2 + usize::from(!extra_head.is_empty());
        let vars: Vec<String> = (0..arity).map(|i| format!("A{i}")).collect();
        let query = format!("?h{k}({})", vars.join(", "));
        ctx.eval();
        // reference: the engine on the original text
        let reference: Result<BTreeSet<String>, String> = guarded(|| {
            let mut e = IQLEngine::new();
            e.add_tuples("r", rows.clone());
            e.execute_tuples(&rule).map(|ts| ts.iter().map(|t| format!("({})", t.values().iter().map(val_str).collect::<Vec<_>>().join(", "))).collect())
        })
        .and_then(|x| x);
        let Ok(reference) = reference else {
            ctx.count("engine_rejected_rule");
            continue;
        };
        ctx.nontrivial(crate::rng::hash_str(&rule));
        let scratch = Scratch::new("c09");
        let Ok(h) = H::open(&scratch.path, &StoreOpts::default()) else { continue };
        let _ = h.h.get_storage().insert_tuples_into("default", "r", rows.clone());
        let rows_of = |res: Result<inputlayer::protocol::wire::QueryResult, String>| -> Result<BTreeSet<String>, String> { res.map(|q| crate::hnd::rows_str(&q).into_iter().collect()) };
        let mut paths: Vec<(&str, Result<BTreeSet<String>, String>)> = Vec::new();
        paths.push(("inline-session-rule", rows_of(h.exec("default", &format!("{rule}\n{query}")))));
        if let Ok(sid) = h.h.create_session("default") {
            let added = h.exec_as(Some(&sid), None, &rule, None);
            paths.push(("ws-session-rule", added.and_then(|_| rows_of(h.exec_as(Some(&sid), None, &query, None)))));
            let _ = h.h.close_session(&sid);
        }
        let reg = h.exec("default", &format!("+{rule}"));
        paths.push(("persistent-rule", reg.and_then(|_| rows_of(h.exec("default", &query)))));
        h.h.shutdown();
        drop(h);
        if let Ok(h2) = H::open(&scratch.path, &StoreOpts::default()) {
            paths.push(("persistent-rule-after-restart", rows_of(h2.exec("default", &query))));
            h2.h.shutdown();
        }
        for (name, got) in paths {
            let same = matches!(&got, Ok(g) if *g == reference);
            if !same {
                let class = if hconst.starts_with('[') { "vector-head-constant" } else if extra_body.contains("abs(") { "function-call" } else if hconst == "true" || hconst == "false" { "bool-head-constant" } else if hconst.contains('.') { "float-head-constant" } else if hconst.starts_with('"') { "string-head-constant" } else if !extra_body.is_empty() { "arithmetic" } else { "other" };
                let what = match &got {
                    Ok(_) => "different-answer",
                    Err(_) => "path-fails",
                };
                ctx.violation(k, &format!("C09:paths-disagree:{name}:{class}:{what}"), format!("`{rule}` answers differently through {name}"), json!({"rule": rule, "query": query, "engine_answer": reference, "path": name, "path_outcome": match got { Ok(g) => json!(g), Err(e) => json!(e) }}));
                break;
            }
        }
        if k % 16 == 0 {
            ctx.sample(json!({"rule": rule, "paths": ["engine", "inline-session-rule", "ws-session-rule", "persistent-rule", "persistent-rule-after-restart"], "answer_rows": reference.len()}));
        }
    }
}
