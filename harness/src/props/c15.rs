//! C15 — concurrent writes are serializable and durable.
//! Real writer threads over one StorageEngine, interleaved by the controlling scheduler at the
//! persistence layer's hook points; a crash image (copy of the data directory) is taken whenever
//! every thread is parked, and each image is recovered by the real StorageEngine::new.

use crate::ctx::{Ctx, Meta};
use crate::sched::{alternations, copy_dir, trace_hash, Sched, Strategy};
use crate::store::*;
use inputlayer::StorageEngine;
use parking_lot::Mutex;
use serde_json::json;
use std::collections::BTreeSet;
use std::sync::Arc;
use std::time::Duration;

pub static META: Meta = Meta {
    id: "C15",
    level: "fault_enumeration",
    rule: "2-3 writer threads, 2-3 operations each from {insert 1-2 unique tuples, delete an own earlier tuple, save_knowledge_graph (flush), compact_all} on one shard or two shards of one store, buffer_size in {1,2,10000}, immediate durability; the scheduler interleaves them at the hook points of append/flush/compact/insert/delete (seeded random schedules plus the directed pattern 'writer parked between WAL append and buffer push while another thread flushes'); after the run the served state must equal inserted-minus-deleted (any serial order of these operations gives that state) and must survive a restart; at every quiescent step (all threads parked) a copy of the data directory is recovered: it must open, contain every tuple whose insert was acknowledged before the step and whose delete had not begun, and contain no tuple whose delete was acknowledged or whose insert had not begun; distinct = schedule trace; non-trivial = trace with >= 2 cross-thread alternations; states = crash images recovered, transitions = scheduler grants",
    assumptions: &["crash model A: every completed write is durable (a copy of the directory while all writers are parked); parked threads are never inside a syscall", "a granted thread that makes no progress for 60 ms is treated as blocked on a real lock", "operations use unique tuples so that every serial order yields the same final state"],
    floor: 20,
    watchdog: (60_000, 120_000),
};

#[derive(Clone, Debug)]
enum Op {
    Ins(&'static str, Vec<i64>),
    Del(&'static str, i64),
    Save,
    Compact,
}

#[derive(Default)]
struct Log {
    begun: Vec<(usize, usize)>,
    acked: Vec<(usize, usize)>,
    errors: Vec<String>,
}

fn tup(id: i64) -> inputlayer::Tuple {
    ituple(&[id, id + 1000])
}

pub fn run(ctx: &mut Ctx) {
    let total = ctx.sz(48, 1600);
    let mut images_total = 0u64;
    let mut grants_total = 0u64;
    for k in ctx.cases(total) {
        let mut r = ctx.rng(k);
        let nthreads = 2 + r.below(2);
        let two_shards = r.chance(1, 3);
        let buffer = *r.pick(&[1usize, 2, 10_000]);
        // plan
        let mut next_id = 0i64;
        let mut plans: Vec<Vec<Op>> = Vec::new();
        for t in 0..nthreads {
            let rel: &'static str = if two_shards && t % 2 == 1 { "r2" } else { "r" };
            let mut own: Vec<i64> = Vec::new();
            let mut ops = Vec::new();
            for _ in 0..(2 + r.below(2)) {
                match r.below(10) {
                    0..=4 => {
                        let n = 1 + r.below(2);
                        let ids: Vec<i64> = (0..n).map(|_| { next_id += 1; next_id }).collect();
                        own.extend(ids.iter().copied());
                        ops.push(Op::Ins(rel, ids));
                    }
                    5 | 6 if !own.is_empty() => ops.push(Op::Del(rel, own.remove(0))),
                    7 | 8 => ops.push(Op::Save),
                    9 => ops.push(Op::Compact),
                    _ => {
                        next_id += 1;
                        own.push(next_id);
                        ops.push(Op::Ins(rel, vec![next_id]));
                    }
                }
            }
            plans.push(ops);
        }
        let scratch = Scratch::new("c15");
        let data = scratch.path.join("data");
        let images = scratch.path.join("images");
        let o = StoreOpts { buffer_size: buffer, ..Default::default() };
        let eng: Arc<StorageEngine> = match open(&data, &o) {
            Ok(e) => Arc::new(e),
            Err(e) => {
                ctx.inconclusive(format!("case {k}: {e}"));
                continue;
            }
        };
        // pre-populate so that flush/compact have something to do
        let _ = eng.insert_tuples_into("default", "r", vec![tup(900)]);
        let log = Arc::new(Mutex::new(Log::default()));
        let bodies: Vec<Box<dyn FnOnce() + Send>> = plans
            .iter()
            .cloned()
            .enumerate()
            .map(|(t, ops)| {
                let (eng, log) = (Arc::clone(&eng), Arc::clone(&log));
                Box::new(move || {
                    for (i, op) in ops.into_iter().enumerate() {
                        log.lock().begun.push((t, i));
                        let res = match &op {
                            Op::Ins(rel, ids) => eng.insert_tuples_into("default", rel, ids.iter().map(|x| tup(*x)).collect()).map(|_| ()).map_err(|e| format!("{e}")),
                            Op::Del(rel, id) => eng.delete_tuples_from("default", rel, vec![tup(*id)]).map(|_| ()).map_err(|e| format!("{e}")),
                            Op::Save => eng.save_knowledge_graph("default").map_err(|e| format!("{e}")),
                            Op::Compact => eng.compact_all().map_err(|e| format!("{e}")),
                        };
                        match res {
                            Ok(()) => log.lock().acked.push((t, i)),
                            Err(e) => log.lock().errors.push(format!("thread {t} op {i} {op:?}: {e}")),
                        }
                    }
                }) as Box<dyn FnOnce() + Send>
            })
            .collect();
        // strategy: directed prefix for 1 case in 3 (park thread 0 after its WAL append, run thread 1 fully), then random
        let strategy = Strategy::Random(ctx.seed ^ k.wrapping_mul(0x9E37_79B9));
        let sched = Sched::new();
        let take_images = true;
        let mut snaps: Vec<(usize, Vec<(usize, usize)>, Vec<(usize, usize)>, String)> = Vec::new();
        let logc = Arc::clone(&log);
        let (datac, imagesc) = (data.clone(), images.clone());
        let outcome = sched.run(bodies, strategy, Duration::from_secs(20), |step, parked| {
            if !take_images {
                return None;
            }
            let dst = imagesc.join(format!("s{step}"));
            if copy_dir(&datac, &dst).is_ok() {
                let l = logc.lock();
                snaps.push((step, l.begun.clone(), l.acked.clone(), parked.iter().map(|(t, p)| format!("{t}@{p}")).collect::<Vec<_>>().join(",")));
                Some(format!("image s{step}"))
            } else {
                None
            }
        });
        ctx.eval();
        grants_total += outcome.trace.len() as u64;
        let l = log.lock();
        let wit_base = json!({"plans": plans.iter().map(|p| p.iter().map(|o| format!("{o:?}")).collect::<Vec<_>>()).collect::<Vec<_>>(), "buffer_size": buffer, "schedule": outcome.trace.iter().map(|(t, p)| format!("{t}:{p}")).collect::<Vec<_>>(), "errors": l.errors});
        if outcome.timed_out {
            ctx.inconclusive(format!("case {k}: schedule did not finish within the budget (inconclusive)"));
            continue;
        }
        if alternations(&outcome.trace) >= 2 {
            ctx.nontrivial(trace_hash(&outcome.trace));
        }
        if !l.errors.is_empty() {
            ctx.violation(k, "C15:operation-failed-under-concurrency", l.errors[0].clone(), wit_base.clone());
            continue;
        }
        // expected final state
        let mut want_r: BTreeSet<i64> = [900].into_iter().collect();
        let mut want_r2: BTreeSet<i64> = BTreeSet::new();
        for p in &plans {
            for op in p {
                match op {
                    Op::Ins(rel, ids) => {
                        for id in ids {
                            if *rel == "r" { want_r.insert(*id); } else { want_r2.insert(*id); }
                        }
                    }
                    Op::Del(rel, id) => {
                        if *rel == "r" { want_r.remove(id); } else { want_r2.remove(id); }
                    }
                    _ => {}
                }
            }
        }
        let ids_of = |f: &Facts, rel: &str| -> BTreeSet<i64> { f.get(rel).map(|v| v.iter().filter_map(|t| t.values()[0].as_i64()).collect()).unwrap_or_default() };
        let served = dump_facts(&eng, "default").unwrap_or_default();
        if ids_of(&served, "r") != want_r || ids_of(&served, "r2") != want_r2 {
            ctx.violation(k, "C15:served-state-not-serializable", format!("served r={:?} r2={:?}, every serial order gives r={want_r:?} r2={want_r2:?}", ids_of(&served, "r"), ids_of(&served, "r2")), wit_base.clone());
            continue;
        }
        drop(l);
        drop(eng);
        // durability of the final state
        match open(&data, &o) {
            Err(e) => {
                ctx.violation(k, "C15:final-state-unopenable", e, wit_base.clone());
                continue;
            }
            Ok(e2) => {
                let rec = dump_facts(&e2, "default").unwrap_or_default();
                if ids_of(&rec, "r") != want_r || ids_of(&rec, "r2") != want_r2 {
                    let lost: Vec<i64> = want_r.union(&want_r2).filter(|i| !ids_of(&rec, "r").contains(i) && !ids_of(&rec, "r2").contains(i)).copied().collect();
                    let class = if !lost.is_empty() { "acknowledged-write-lost-after-restart" } else { "deleted-tuple-back-after-restart" };
                    ctx.violation(k, &format!("C15:{class}"), format!("after restart r={:?} r2={:?}, expected r={want_r:?} r2={want_r2:?}", ids_of(&rec, "r"), ids_of(&rec, "r2")), wit_base.clone());
                    continue;
                }
            }
        }
        // crash images
        let keep = std::fs::rename(&data, scratch.path.join("data.final")).is_ok();
        let mut bad = false;
        for (step, begun, acked, where_) in &snaps {
            if bad {
                break;
            }
            let _ = std::fs::remove_dir_all(&data);
            if copy_dir(&images.join(format!("s{step}")), &data).is_err() {
                continue;
            }
            images_total += 1;
            let acked_set: BTreeSet<(usize, usize)> = acked.iter().copied().collect();
            let begun_set: BTreeSet<(usize, usize)> = begun.iter().copied().collect();
            let mut must: BTreeSet<i64> = [900].into_iter().collect();
            let mut must_not: BTreeSet<i64> = BTreeSet::new();
            for (t, p) in plans.iter().enumerate() {
                for (i, op) in p.iter().enumerate() {
                    match op {
                        Op::Ins(_, ids) => {
                            for id in ids {
                                if acked_set.contains(&(t, i)) { must.insert(*id); }
                                if !begun_set.contains(&(t, i)) { must_not.insert(*id); }
                            }
                        }
                        Op::Del(_, id) => {
                            if begun_set.contains(&(t, i)) { must.remove(id); }
                            if acked_set.contains(&(t, i)) { must_not.insert(*id); }
                        }
                        _ => {}
                    }
                }
            }
            let wit = |extra: serde_json::Value| {
                let mut w = wit_base.clone();
                w["crash_step"] = json!(step);
                w["threads_parked_at"] = json!(where_);
                w["acknowledged_ops"] = json!(acked);
                w["detail"] = extra;
                w
            };
            match open(&data, &o) {
                Err(e) => {
                    ctx.violation(k, "C15:crash-image-unopenable", format!("crash at step {step} ({where_}): {e}"), wit(json!({})));
                    bad = true;
                }
                Ok(e3) => {
                    let rec = dump_facts(&e3, "default").unwrap_or_default();
                    let have: BTreeSet<i64> = ids_of(&rec, "r").union(&ids_of(&rec, "r2")).copied().collect();
                    let lost: Vec<&i64> = must.difference(&have).collect();
                    let ghost: Vec<&i64> = have.intersection(&must_not).collect();
                    if !lost.is_empty() {
                        // which point was the lagging writer parked at?
                        let at = where_.split(',').filter(|x| x.contains("append.") || x.contains("ins.") || x.contains("flush.")).collect::<Vec<_>>().join("+");
                        ctx.violation(k, &format!("C15:acknowledged-write-lost-in-crash-image:{}", if at.is_empty() { "other" } else { "writer-inside-append-or-flush" }), format!("crash at step {step} ({where_}): acknowledged tuples {lost:?} are missing after recovery"), wit(json!({"recovered": have})));
                        bad = true;
                    } else if !ghost.is_empty() {
                        ctx.violation(k, "C15:unacknowledged-or-deleted-tuple-in-crash-image", format!("crash at step {step} ({where_}): tuples {ghost:?} must not be present"), wit(json!({"recovered": have})));
                        bad = true;
                    }
                }
            }
        }
        let _ = keep;
        if !bad && k % 12 == 0 {
            ctx.sample(json!({"plans": plans.iter().map(|p| p.iter().map(|o| format!("{o:?}")).collect::<Vec<_>>()).collect::<Vec<_>>(), "schedule_head": outcome.trace.iter().take(14).map(|(t, p)| format!("{t}:{p}")).collect::<Vec<_>>(), "grants": outcome.trace.len(), "crash_images": snaps.len()}));
        }
    }
    ctx.count_n("crash_images_recovered", images_total);
    ctx.count_n("scheduler_grants", grants_total);
}
