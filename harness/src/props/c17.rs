//! C17 — knowledge graphs are isolated and drops are final.
//! Sequential histories over 2-4 KGs with hostile names against a registry model with incarnation
//! numbers; plus scheduled interleavings of an insert with a concurrent drop + re-create.

use crate::ctx::{Ctx, Meta};
use crate::sched::{alternations, trace_hash, Sched, Strategy};
use crate::store::*;
use inputlayer::{parse_rule_definition, StorageEngine};
use serde_json::json;
use std::collections::{BTreeMap, BTreeSet};
use std::sync::Arc;
use std::time::Duration;

pub static META: Meta = Meta {
    id: "C17",
    level: "exploration",
    rule: "(a) sequential histories of 15-40 operations (create, drop, re-create under the same name, insert of tuples tagged with (incarnation, op id), delete, rule register/drop, schema register, save_all, compact_all, restart) over 2-4 knowledge graphs whose names and relation names are chosen to collide under naive encodings (`a`, `a_b`, `a:b`, `ab`; relations `b_c`, `c`, `b`, `b:c` where the API accepts them); after every operation the dump of every KG (facts, rule names, schema names) must equal a registry model, so an operation on one KG never changes another and nothing of a dropped incarnation is visible again, live or after restart; (b) scheduled runs: one thread inserts into KG k while another drops and re-creates k, interleaved at the hook points of insert/drop/create by a seeded scheduler; afterwards and after a restart the re-created KG must hold no tuple of the dropped incarnation unless the insert was acknowledged after the re-creation; distinct = history / schedule trace; non-trivial = history with a drop or a restart and >= 2 KGs",
    assumptions: &["names are passed through the public StorageEngine API; names the API rejects are simply not used", "an insert that returns Err is not acknowledged and must leave no trace"],
    floor: 40,
    watchdog: (40_000, 120_000),
};

#[derive(Clone, Debug, Default, PartialEq)]
struct MKg {
    inc: u32,
    facts: BTreeMap<String, BTreeSet<(i64, i64)>>,
    rules: BTreeSet<String>,
    schemas: BTreeSet<String>,
}

fn sanitize(s: &str) -> String {
    s.replace([':', '/'], "_")
}

fn observe(e: &StorageEngine) -> Result<BTreeMap<String, MKg>, String> {
    let d = dump_all(e)?;
    let mut out = BTreeMap::new();
    for (kg, k) in d {
        let mut m = MKg::default();
        for (rel, ts) in k.facts {
            let set: BTreeSet<(i64, i64)> = ts.iter().map(|t| (t.values()[0].as_i64().unwrap_or(-1), t.values().get(1).and_then(|v| v.as_i64()).unwrap_or(-1))).collect();
            m.facts.insert(rel, set);
        }
        m.rules = k.rules.keys().cloned().collect();
        m.schemas = k.schemas.keys().cloned().collect();
        out.insert(kg, m);
    }
    Ok(out)
}

fn strip_inc(m: &BTreeMap<String, MKg>) -> BTreeMap<String, MKg> {
    m.iter().map(|(k, v)| (k.clone(), MKg { inc: 0, ..v.clone() })).collect()
}

const KG_NAMES: [&str; 5] = ["a", "a_b", "a:b", "ab", "a-b"];
const REL_NAMES: [&str; 5] = ["b_c", "c", "b", "b:c", "r"];

fn sequential(ctx: &mut Ctx, k: u64) {
    let mut r = ctx.rng(k);
    let scratch = Scratch::new("c17");
    let o = StoreOpts { buffer_size: *r.pick(&[1usize, 3, 10_000]), ..Default::default() };
    let Ok(mut e) = open(&scratch.path, &o) else { return };
    let mut model: BTreeMap<String, MKg> = BTreeMap::new();
    model.insert("default".into(), MKg::default());
    // one history in three uses exactly the names whose "kg:relation" pairs collide under a naive encoding
    let focus = k % 3 == 0;
    let kgs: Vec<&str> = if focus { vec!["a", "a_b"] } else { let mut v = KG_NAMES.to_vec(); r.shuffle(&mut v); v.truncate(2 + r.below(3)); v };
    let rels: Vec<&str> = if focus { vec!["b_c", "c"] } else { let mut v = REL_NAMES.to_vec(); r.shuffle(&mut v); v.truncate(2 + r.below(3)); v };
    let mut next_inc = 1u32;
    let mut opid = 0i64;
    let steps = 15 + r.below(26);
    let mut hist: Vec<String> = Vec::new();
    let (mut drops, mut restarts) = (0, 0);
    let mut used: BTreeSet<(String, String)> = BTreeSet::new();
    ctx.eval();
    for _ in 0..steps {
        let kg = *r.pick(&kgs);
        let rel = *r.pick(&rels);
        opid += 1;
        match r.below(16) {
            0..=2 => {
                hist.push(format!("create {kg}"));
                match e.create_knowledge_graph(kg) {
                    Ok(()) => {
                        if model.contains_key(kg) {
                            ctx.violation(k, "C17:create-of-existing-kg-succeeded", format!("create {kg} succeeded twice"), json!({"history": hist}));
                            return;
                        }
                        model.insert(kg.to_string(), MKg { inc: next_inc, ..Default::default() });
                        next_inc += 1;
                    }
                    Err(_) => {}
                }
            }
            3 | 4 => {
                hist.push(format!("drop {kg}"));
                if e.drop_knowledge_graph(kg).is_ok() {
                    model.remove(kg);
                    drops += 1;
                }
            }
            5..=9 => {
                if let Some(m) = model.get(kg) {
                    let t = (i64::from(m.inc) * 1000 + opid, opid);
                    hist.push(format!("insert {kg}/{rel} {t:?}"));
                    if e.insert_tuples_into(kg, rel, vec![ituple(&[t.0, t.1])]).is_ok() {
                        model.get_mut(kg).unwrap().facts.entry(rel.to_string()).or_default().insert(t);
                        used.insert((kg.to_string(), rel.to_string()));
                    }
                }
            }
            10 => {
                if let Some(m) = model.get(kg) {
                    if let Some(t) = m.facts.get(rel).and_then(|s| s.iter().next().copied()) {
                        hist.push(format!("delete {kg}/{rel} {t:?}"));
                        if e.delete_tuples_from(kg, rel, vec![ituple(&[t.0, t.1])]).is_ok() {
                            let s = model.get_mut(kg).unwrap().facts.get_mut(rel).unwrap();
                            s.remove(&t);
                            if s.is_empty() {
                                model.get_mut(kg).unwrap().facts.remove(rel);
                            }
                        }
                    }
                }
            }
            11 => {
                if model.contains_key(kg) && !rel.contains(':') {
                    let name = format!("v{}", r.below(3));
                    let text = format!("{name}(X) <- {rel}(X, _)");
                    hist.push(format!("rule {kg}: {text}"));
                    if let Ok(def) = parse_rule_definition(&text) {
                        if e.register_rule_in(kg, &def).is_ok() {
                            model.get_mut(kg).unwrap().rules.insert(name);
                        }
                    }
                }
            }
            12 => {
                if let Some(m) = model.get(kg) {
                    if let Some(name) = m.rules.iter().next().cloned() {
                        hist.push(format!("drop rule {kg}: {name}"));
                        if e.drop_rule_in(kg, &name).is_ok() {
                            model.get_mut(kg).unwrap().rules.remove(&name);
                        }
                    }
                }
            }
            13 => {
                hist.push("save_all".into());
                let _ = e.save_all();
            }
            14 => {
                hist.push("compact_all".into());
                let _ = e.compact_all();
            }
            _ => {
                // half of the restarts are plain drops of the engine (no save: data may live in the WAL only)
                let save = r.chance(1, 2);
                hist.push(if save { "restart".into() } else { "restart (no save)".to_string() });
                restarts += 1;
                if save {
                    let _ = e.save_all();
                }
                drop(e);
                match open(&scratch.path, &o) {
                    Ok(x) => e = x,
                    Err(err) => {
                        ctx.violation(k, "C17:store-unopenable-after-restart", err, json!({"history": hist}));
                        return;
                    }
                }
            }
        }
        // compare every KG with the model
        let got = match observe(&e) {
            Ok(g) => g,
            Err(err) => {
                ctx.violation(k, "C17:dump-failed", err, json!({"history": hist}));
                return;
            }
        };
        let want = strip_inc(&model);
        if got != want {
            // classify: which KG differs, and is it the one the last operation touched?
            let last = hist.last().cloned().unwrap_or_default();
            let mut what = String::new();
            let mut class = "other";
            for name in got.keys().chain(want.keys()).collect::<BTreeSet<_>>() {
                if got.get(name) != want.get(name) {
                    let touched = last.contains(&format!(" {name}/")) || last.ends_with(&format!(" {name}")) || last.contains(&format!(" {name}:"));
                    what = format!("KG `{name}` is {:?}, model says {:?} (after `{last}`)", got.get(name), want.get(name));
                    // ghost data of an earlier incarnation?
                    let ghost = got.get(name).is_some_and(|g| g.facts.values().flatten().any(|t| want.get(name).map_or(true, |w| !w.facts.values().flatten().any(|x| x == t))));
                    let colon = used.iter().any(|(k1, r1)| k1.contains(':') || r1.contains(':')) || model.keys().any(|x| x.contains(':'));
                    let collide = used.iter().any(|(k1, r1)| used.iter().any(|(k2, r2)| (k1, r1) != (k2, r2) && sanitize(&format!("{k1}:{r1}")) == sanitize(&format!("{k2}:{r2}"))));
                    class = if colon {
                        "colon-in-kg-or-relation-name"
                    } else if collide && last.starts_with("restart") {
                        "shard-filename-collision:after-restart"
                    } else if collide {
                        "shard-filename-collision:live"
                    } else if ghost && last.starts_with("create") {
                        "dropped-data-reappears-in-recreated-kg"
                    } else if ghost && last.starts_with("restart") {
                        "dropped-data-reappears-after-restart"
                    } else if !touched {
                        "operation-changed-another-kg"
                    } else {
                        "state-differs-from-model"
                    };
                    break;
                }
            }
            ctx.violation(k, &format!("C17:{class}"), what, json!({"history": hist, "kgs": kgs, "relations": rels, "buffer_size": o.buffer_size}));
            return;
        }
    }
    if (drops > 0 || restarts > 0) && model.len() >= 2 {
        ctx.nontrivial(crate::rng::hash_str(&hist.join(";")));
        if k % 30 == 0 {
            ctx.sample(json!({"history_head": hist.iter().take(12).collect::<Vec<_>>(), "operations": hist.len(), "kgs": kgs, "relations": rels}));
        }
    }
}

fn scheduled(ctx: &mut Ctx, k: u64) {
    let mut r = ctx.rng(k);
    let scratch = Scratch::new("c17s");
    let o = StoreOpts { buffer_size: *r.pick(&[1usize, 10_000]), ..Default::default() };
    let Ok(e) = open(&scratch.path, &o) else { return };
    let e = Arc::new(e);
    let _ = e.create_knowledge_graph("k");
    let _ = e.insert_tuples_into("k", "r", vec![ituple(&[1, 1])]);
    if r.chance(1, 2) {
        let _ = e.save_all();
    }
    // thread 0: insert old-incarnation tuple (7,7); thread 1: drop k, create k, insert (2,2) into the new incarnation
    let acked_old = Arc::new(std::sync::atomic::AtomicBool::new(false));
    let created_at = Arc::new(parking_lot::Mutex::new(Vec::<&'static str>::new()));
    let (e0, a0, c0) = (Arc::clone(&e), Arc::clone(&acked_old), Arc::clone(&created_at));
    let (e1, c1) = (Arc::clone(&e), Arc::clone(&created_at));
    let bodies: Vec<Box<dyn FnOnce() + Send>> = vec![
        Box::new(move || {
            let ok = e0.insert_tuples_into("k", "r", vec![ituple(&[7, 7])]).is_ok();
            // was the KG already re-created when the insert was acknowledged?
            let recreated = c0.lock().contains(&"created");
            if ok && !recreated {
                a0.store(true, std::sync::atomic::Ordering::SeqCst);
            }
            if ok {
                c0.lock().push(if recreated { "old-insert-acked-after-recreate" } else { "old-insert-acked-before-recreate" });
            }
        }),
        Box::new(move || {
            if e1.drop_knowledge_graph("k").is_ok() {
                c1.lock().push("dropped");
                if e1.create_knowledge_graph("k").is_ok() {
                    c1.lock().push("created");
                    let _ = e1.insert_tuples_into("k", "r", vec![ituple(&[2, 2])]);
                }
            }
        }),
    ];
    let sched = Sched::new();
    let out = sched.run(bodies, Strategy::Random(ctx.seed ^ k.wrapping_mul(0x51_7CC1)), Duration::from_secs(15), |_, _| None);
    ctx.eval();
    if out.timed_out {
        ctx.inconclusive(format!("case {k}: schedule did not finish (inconclusive)"));
        return;
    }
    if alternations(&out.trace) >= 2 {
        ctx.nontrivial(trace_hash(&out.trace));
    }
    let events = created_at.lock().clone();
    let dropped = events.contains(&"dropped");
    let recreated = events.contains(&"created");
    let old_after = events.contains(&"old-insert-acked-after-recreate");
    let wit = |extra: serde_json::Value| json!({"schedule": out.trace.iter().map(|(t, p)| format!("{t}:{p}")).collect::<Vec<_>>(), "events": events, "detail": extra});
    let ids = |e: &StorageEngine| -> Option<BTreeSet<i64>> { dump_facts(e, "k").ok().map(|f| f.get("r").map(|v| v.iter().filter_map(|t| t.values()[0].as_i64()).collect()).unwrap_or_default()) };
    let check = |got: Option<BTreeSet<i64>>, when: &str| -> Option<(String, String)> {
        let got = got?;
        if dropped && recreated {
            // (1,1) belongs to the dropped incarnation and must be gone; (7,7) may only be there if its insert was acknowledged after the re-creation
            if got.contains(&1) {
                return Some((format!("dropped-data-reappears:{when}"), format!("tuple (1,1) of the dropped incarnation is visible: {got:?}")));
            }
            if got.contains(&7) && !old_after {
                return Some((format!("insert-into-dropped-incarnation-lands-in-new-kg:{when}"), format!("(7,7) was inserted into the incarnation that was dropped, yet the re-created KG holds it: {got:?}")));
            }
        }
        None
    };
    if let Some((class, what)) = check(ids(&e), "live") {
        ctx.violation(k, &format!("C17:{class}"), what, wit(json!({})));
        return;
    }
    let _ = e.save_all();
    drop(e);
    match open(&scratch.path, &o) {
        Err(err) => ctx.violation(k, "C17:store-unopenable-after-concurrent-drop", err, wit(json!({}))),
        Ok(e2) => {
            let kg_exists = e2.list_knowledge_graphs().iter().any(|x| x == "k");
            if dropped && !recreated && kg_exists && ids(&e2).is_some_and(|s| !s.is_empty()) {
                ctx.violation(k, "C17:dropped-kg-back-after-restart", format!("k was dropped but is back with {:?}", ids(&e2)), wit(json!({})));
            } else if let Some((class, what)) = check(ids(&e2), "after-restart") {
                ctx.violation(k, &format!("C17:{class}"), what, wit(json!({})));
            } else if k % 40 == 1 {
                ctx.sample(wit(json!({"result": "held"})));
            }
        }
    }
}

pub fn run(ctx: &mut Ctx) {
    let total = ctx.sz(300, 6000);
    for k in ctx.cases(total) {
        ctx.at_case(k);
        if k % 3 == 2 {
            scheduled(ctx, k);
        } else {
            sequential(ctx, k);
        }
    }
}
