//! C18 — materialization / incremental maintenance is invisible; C19 — the incremental engine's
//! arrangements mirror the base relations.

use crate::ctx::{Ctx, Meta};
use crate::eng::*;
use crate::hnd::H;
use crate::refdl::{self, Clause, V};
use crate::sched::{alternations, trace_hash, Sched, Strategy};
use crate::store::*;
use inputlayer::{parse_rule_definition, StorageEngine};
use serde_json::json;
use std::collections::{BTreeMap, BTreeSet};
use std::sync::Arc;
use std::time::Duration;

pub static META18: Meta = Meta {
    id: "C18",
    level: "exploration",
    rule: "histories of 15-35 steps (base inserts/deletes on r/2 and s/1, registration of rules from a pool with multi-clause heads, rules over other derived relations 2-3 levels deep, negation and a recursive rule, clause removal, rule drop) applied to two stores: A with incremental maintenance enabled (directly through enable_incremental, or through the user path: schema with a vector column + `.index create`; at the start or in the middle of the history) and B without; after every step every currently defined derived relation is queried on both and the answers must be equal to each other and to a fresh reference evaluation of the current rules over the current facts; distinct = history; non-trivial = history with >= 3 rules of which one depends on another derived relation",
    assumptions: &["reference evaluator for the current rules/facts; twin B for attribution"],
    floor: 30,
    watchdog: (40_000, 120_000),
};
pub static META19: Meta = Meta {
    id: "C19",
    level: "exploration",
    rule: "(a) histories of 20-50 inserts/deletes (in-batch duplicates, already present tuples, absent deletes, re-inserts) on 2 relations of a store with incremental maintenance enabled (at the start or mid-history, so existing data is replayed): after every operation read_relation_consistent of every relation must equal the set model and the store's own dump; (b) scheduled runs: 2 writers (unique tuples, own deletes) and 1 reader, interleaved by the scheduler at the insert/delete hook points: every consistent read must succeed (a disconnected worker is a violation), contain every tuple whose insert was acknowledged before the read began and whose delete had not begun, and no tuple whose insert had not begun or whose delete was acknowledged before the read began; the final read equals the model; distinct = history / schedule; non-trivial = >= 10 effective writes / >= 2 alternations",
    assumptions: &["set model of a relation; begun/acknowledged stamps taken by the writers themselves"],
    floor: 30,
    watchdog: (40_000, 120_000),
};

const RULES: [&str; 9] = [
    "v1(X) <- r(X, _)",
    "v1(X) <- s(X)",
    "v2(X, Y) <- r(X, Y), s(Y)",
    "v3(X) <- v1(X), !s(X)",
    "v4(X, Z) <- v2(X, Y), r(Y, Z)",
    "t(X, Y) <- r(X, Y)",
    "t(X, Z) <- t(X, Y), r(Y, Z)",
    "v5(X) <- t(X, _), v3(X)",
    "v6(X, Y) <- r(X, Y), X < Y",
];

fn enable(e: &StorageEngine) -> Result<(), String> {
    e.with_kg_mut("default", |kg| kg.enable_incremental().map_err(|x| format!("{x}"))).map_err(|x| format!("{x}"))
}

fn query_rel(e: &StorageEngine, name: &str, ar: usize) -> Result<BTreeSet<Vec<i64>>, String> {
    let vars: Vec<String> = (0..ar).map(|i| format!("A{i}")).collect();
    let q = format!("__q__({v}) <- {name}({v})", v = vars.join(", "));
    e.execute_query_with_rules_tuples_on("default", &q).map(|ts| ts.iter().map(|t| t.values().iter().map(|v| v.as_i64().unwrap_or(i64::MIN)).collect()).collect()).map_err(|x| format!("{x}"))
}

pub fn run18(ctx: &mut Ctx) {
    let total = ctx.sz(64, 1280);
    for k in ctx.cases(total) {
        let mut r = ctx.rng(k);
        let (sa, sb) = (Scratch::new("c18a"), Scratch::new("c18b"));
        let (Ok(ha), Ok(hb)) = (H::open(&sa.path, &StoreOpts::default()), H::open(&sb.path, &StoreOpts::default())) else { continue };
        let user_path = r.chance(1, 3);
        let enable_at = if r.chance(1, 2) { 0 } else { 3 + r.below(8) };
        let mut facts: BTreeMap<&str, BTreeSet<Vec<i64>>> = BTreeMap::new();
        facts.insert("r", BTreeSet::new());
        facts.insert("s", BTreeSet::new());
        let mut rules: Vec<String> = Vec::new();
        let mut hist: Vec<String> = Vec::new();
        let steps = 15 + r.below(21);
        let mut enabled = false;
        let mut bad = false;
        ctx.eval();
        for step in 0..steps {
            if !enabled && step >= enable_at {
                enabled = true;
                if user_path {
                    hist.push("A: +vecs(id: int, v: vector) ; +vecs(1, [1.0, 2.0]) ; .index create idx1 on vecs(v)".into());
                    for e in [&ha, &hb] {
                        let _ = e.exec("default", "+vecs(id: int, v: vector)");
                        let _ = e.exec("default", "+vecs(1, [1.0, 2.0])");
                    }
                    if let Err(e) = ha.exec("default", ".index create idx1 on vecs(v) metric euclidean") {
                        ctx.count("index_create_failed");
                        ctx.trace(|| format!("index create: {e}"));
                        let _ = enable(&ha.h.get_storage());
                    }
                } else {
                    hist.push("A: enable_incremental".into());
                    if let Err(e) = enable(&ha.h.get_storage()) {
                        ctx.inconclusive(format!("case {k}: enable_incremental failed: {e}"));
                        bad = true;
                        break;
                    }
                }
            }
            let roll = r.below(12);
            if roll < 4 {
                let rel = if r.chance(2, 3) { "r" } else { "s" };
                let ar = if rel == "r" { 2 } else { 1 };
                let b: Vec<Vec<i64>> = (0..(1 + r.below(3))).map(|_| (0..ar).map(|_| r.range(0, 4)).collect()).collect();
                hist.push(format!("insert {rel} {b:?}"));
                for e in [&ha, &hb] {
                    let _ = e.h.get_storage().insert_tuples_into("default", rel, b.iter().map(|t| ituple(t)).collect());
                }
                facts.get_mut(rel).unwrap().extend(b);
            } else if roll < 6 {
                let rel = if r.chance(2, 3) { "r" } else { "s" };
                let ar = if rel == "r" { 2 } else { 1 };
                let t: Vec<i64> = if !facts[rel].is_empty() && r.chance(3, 4) { facts[rel].iter().nth(r.below(facts[rel].len())).unwrap().clone() } else { (0..ar).map(|_| r.range(0, 4)).collect() };
                hist.push(format!("delete {rel} {t:?}"));
                for e in [&ha, &hb] {
                    let _ = e.h.get_storage().delete_tuples_from("default", rel, vec![ituple(&t)]);
                }
                facts.get_mut(rel).unwrap().remove(&t);
            } else if roll < 10 {
                // register a rule whose body relations are defined
                let cand: Vec<&str> = RULES.iter().copied().filter(|t| !rules.iter().any(|x| x == t)).filter(|t| {
                    let c = crate::rparse::parse_clause(t).unwrap();
                    c.body.iter().all(|l| match l {
                        refdl::Lit::Pos(a) | refdl::Lit::Neg(a) => a.rel == "r" || a.rel == "s" || a.rel == c.head || rules.iter().any(|x| x.starts_with(&format!("{}(", a.rel))),
                        _ => true,
                    })
                }).collect();
                if let Some(t) = cand.first().map(|_| *r.pick(&cand)) {
                    hist.push(format!("+{t}"));
                    let (ra, rb) = (ha.exec("default", &format!("+{t}")), hb.exec("default", &format!("+{t}")));
                    if ra.is_ok() != rb.is_ok() {
                        ctx.violation(k, "C18:rule-registration-outcome-differs", format!("`+{t}`: incremental store {:?}, plain store {:?}", ra.map(|_| ()), rb.map(|_| ())), json!({"history": hist}));
                        bad = true;
                        break;
                    }
                    if ra.is_ok() {
                        rules.push(t.to_string());
                    }
                }
            } else if roll < 11 {
                // drop a rule nobody depends on
                let names: BTreeSet<String> = rules.iter().map(|t| t.split('(').next().unwrap_or("").to_string()).collect();
                let free: Vec<String> = names.iter().filter(|n| !rules.iter().any(|t| !t.starts_with(&format!("{n}(")) && t.contains(&format!(" {n}(")) || t.contains(&format!("!{n}(")) && !t.starts_with(&format!("{n}(")))).cloned().collect();
                if let Some(n) = free.first().map(|_| r.pick(&free).clone()) {
                    hist.push(format!(".rule drop {n}"));
                    let _ = ha.exec("default", &format!(".rule drop {n}"));
                    let _ = hb.exec("default", &format!(".rule drop {n}"));
                    rules.retain(|t| !t.starts_with(&format!("{n}(")));
                }
            } else {
                // remove the last clause of a multi-clause rule
                for n in ["v1", "t"] {
                    let cl: Vec<usize> = rules.iter().enumerate().filter(|(_, t)| t.starts_with(&format!("{n}("))).map(|(i, _)| i).collect();
                    if cl.len() >= 2 {
                        hist.push(format!(".rule remove {n} 2"));
                        let _ = ha.exec("default", &format!(".rule remove {n} 2"));
                        let _ = hb.exec("default", &format!(".rule remove {n} 2"));
                        rules.remove(cl[1]);
                        break;
                    }
                }
            }
            // compare every derived relation
            let clauses: Vec<Clause> = rules.iter().filter_map(|t| crate::rparse::parse_clause(t)).collect();
            let db: refdl::Db = facts.iter().map(|(k2, v)| (k2.to_string(), v.iter().map(|t| t.iter().map(|x| V::I(*x)).collect()).collect())).collect();
            let model = refdl::evaluate(&clauses, &db, false);
            let mut heads: Vec<(String, usize)> = Vec::new();
            for c in &clauses {
                if !heads.iter().any(|(h, _)| h == &c.head) {
                    heads.push((c.head.clone(), c.hargs.len()));
                }
            }
            for (h, ar) in heads {
                let (qa, qb) = (query_rel(&ha.h.get_storage(), &h, ar), query_rel(&hb.h.get_storage(), &h, ar));
                let want: Option<BTreeSet<Vec<i64>>> = model.as_ref().ok().map(|m| m.db.get(&h).map(|s| s.iter().map(|t| t.iter().map(|v| v.as_i(). unwrap_or(i64::MIN)).collect()).collect()).unwrap_or_default());
                let differs_ab = match (&qa, &qb) {
                    (Ok(a), Ok(b)) => a != b,
                    (Err(_), Err(_)) => false,
                    _ => true,
                };
                let stale = matches!((&qa, &want), (Ok(a), Some(w)) if a != w);
                if differs_ab || stale {
                    let last = hist.last().cloned().unwrap_or_default();
                    let op = if last.starts_with("insert") { "base-insert" } else if last.starts_with("delete") { "base-delete" } else if last.starts_with('+') { "rule-registration" } else if last.contains("remove") { "clause-removal" } else if last.contains("drop") { "rule-drop" } else { "enable" };
                    let class = if differs_ab && !matches!((&qb, &want), (Ok(b), Some(w)) if b != w) { format!("incremental-store-differs-from-plain-store:after-{op}") } else { format!("both-stores-differ-from-fresh-evaluation:after-{op}") };
                    ctx.violation(k, &format!("C18:{class}"), format!("`?{h}`: incremental {qa:?}, plain {qb:?}, fresh evaluation {want:?}").chars().take(500).collect(), json!({"history": hist, "rules": rules, "facts": facts, "relation": h, "enabled_through": if user_path { "index create" } else { "enable_incremental" }}));
                    bad = true;
                    break;
                }
            }
            if bad {
                break;
            }
        }
        if !bad && rules.len() >= 3 && rules.iter().any(|t| t.contains(" v1(") || t.contains(" v2(") || t.contains(" t(") || t.contains(" v3(")) {
            ctx.nontrivial(crate::rng::hash_str(&hist.join(";")));
            if k % 8 == 0 {
                ctx.sample(json!({"history": hist, "enabled_through": if user_path { "index create" } else { "enable_incremental" }}));
            }
        }
        ha.h.shutdown();
        hb.h.shutdown();
    }
}

fn consistent(e: &StorageEngine, rel: &str) -> Result<BTreeSet<Vec<i64>>, String> {
    e.with_kg_read("default", |kg| match kg.incremental() {
        None => Err("incremental engine not enabled".to_string()),
        Some(i) => i.read_relation_consistent(rel).map(|ts| ts.iter().map(|t| t.values().iter().map(|v| v.as_i64().unwrap_or(i64::MIN)).collect()).collect()),
    })
    .map_err(|x| format!("{x}"))
}

fn c19_sequential(ctx: &mut Ctx, k: u64) {
    let mut r = ctx.rng(k);
    let scratch = Scratch::new("c19");
    let Ok(e) = open(&scratch.path, &StoreOpts::default()) else { return };
    let enable_at = if r.chance(1, 2) { 0 } else { 5 + r.below(10) };
    let mut m: BTreeMap<&str, BTreeSet<Vec<i64>>> = BTreeMap::new();
    m.insert("r", BTreeSet::new());
    m.insert("s", BTreeSet::new());
    let steps = 20 + r.below(31);
    let mut hist = Vec::new();
    let mut effective = 0;
    ctx.eval();
    for step in 0..steps {
        if step == enable_at {
            hist.push("enable_incremental".to_string());
            if let Err(x) = enable(&e) {
                ctx.inconclusive(format!("case {k}: {x}"));
                return;
            }
        }
        let rel = if r.chance(2, 3) { "r" } else { "s" };
        let ar = if rel == "r" { 2 } else { 1 };
        if r.chance(3, 5) {
            let mut b: Vec<Vec<i64>> = (0..(1 + r.below(3))).map(|_| (0..ar).map(|_| r.range(0, 3)).collect()).collect();
            if r.chance(1, 3) {
                b.push(b[0].clone());
            }
            hist.push(format!("insert {rel} {b:?}"));
            let _ = e.insert_tuples_into("default", rel, b.iter().map(|t| ituple(t)).collect());
            for t in b {
                if m.get_mut(rel).unwrap().insert(t) {
                    effective += 1;
                }
            }
        } else {
            let b: Vec<Vec<i64>> = (0..(1 + r.below(2))).map(|_| if !m[rel].is_empty() && r.chance(2, 3) { m[rel].iter().nth(r.below(m[rel].len())).unwrap().clone() } else { (0..ar).map(|_| r.range(0, 3)).collect() }).collect();
            hist.push(format!("delete {rel} {b:?}"));
            let _ = e.delete_tuples_from("default", rel, b.iter().map(|t| ituple(t)).collect());
            for t in b {
                if m.get_mut(rel).unwrap().remove(&t) {
                    effective += 1;
                }
            }
        }
        if step >= enable_at {
            for rel in ["r", "s"] {
                match consistent(&e, rel) {
                    Err(x) => {
                        // a relation that was never written does not exist in the engine: not a mirror failure
                        if m[rel].is_empty() && !hist.iter().any(|h| h.contains(&format!(" {rel} "))) {
                            continue;
                        }
                        let class = if x.contains("isconnected") { "worker-disconnected" } else { "consistent-read-failed" };
                        ctx.violation(k, &format!("C19:{class}"), format!("read_relation_consistent({rel}) failed: {x}"), json!({"history": hist}));
                        return;
                    }
                    Ok(got) => {
                        if got != m[rel] {
                            let last = hist.last().cloned().unwrap_or_default();
                            let op = if last.starts_with("insert") { "insert" } else if last.starts_with("delete") { "delete" } else { "enable" };
                            let dir = if got.is_superset(&m[rel]) { "extra-tuples" } else if got.is_subset(&m[rel]) { "missing-tuples" } else { "different" };
                            ctx.violation(k, &format!("C19:mirror-differs-from-relation:after-{op}:{dir}"), format!("read_relation_consistent({rel}) = {got:?}, the relation holds {:?}", m[rel]), json!({"history": hist, "enabled_at_step": enable_at}));
                            return;
                        }
                    }
                }
            }
        }
    }
    if effective >= 10 {
        ctx.nontrivial(crate::rng::hash_str(&hist.join(";")));
        if k % 30 == 0 {
            ctx.sample(json!({"history_head": hist.iter().take(10).collect::<Vec<_>>(), "operations": hist.len(), "enabled_at_step": enable_at}));
        }
    }
}

fn c19_scheduled(ctx: &mut Ctx, k: u64) {
    let mut r = ctx.rng(k);
    let scratch = Scratch::new("c19s");
    let Ok(e) = open(&scratch.path, &StoreOpts::default()) else { return };
    let _ = e.insert_tuples_into("default", "r", vec![ituple(&[900, 0])]);
    if enable(&e).is_err() {
        return;
    }
    let e = Arc::new(e);
    // log of (kind, id, phase) where phase 0 = begun, 1 = acked; reads store their observation
    let log: Arc<parking_lot::Mutex<Vec<(char, i64, u8)>>> = Arc::new(parking_lot::Mutex::new(Vec::new()));
    let reads: Arc<parking_lot::Mutex<Vec<(usize, usize, Result<BTreeSet<i64>, String>)>>> = Arc::new(parking_lot::Mutex::new(Vec::new()));
    let mut bodies: Vec<Box<dyn FnOnce() + Send>> = Vec::new();
    for w in 0..2i64 {
        let (e, log) = (Arc::clone(&e), Arc::clone(&log));
        let n = 2 + r.below(3) as i64;
        let del = r.chance(1, 2);
        bodies.push(Box::new(move || {
            for i in 0..n {
                let id = w * 100 + i + 1;
                log.lock().push(('i', id, 0));
                if e.insert_tuples_into("default", "r", vec![ituple(&[id, w])]).is_ok() {
                    log.lock().push(('i', id, 1));
                }
            }
            if del {
                let id = w * 100 + 1;
                log.lock().push(('d', id, 0));
                if e.delete_tuples_from("default", "r", vec![ituple(&[id, w])]).is_ok() {
                    log.lock().push(('d', id, 1));
                }
            }
        }));
    }
    {
        let (e, log, reads) = (Arc::clone(&e), Arc::clone(&log), Arc::clone(&reads));
        bodies.push(Box::new(move || {
            for _ in 0..4 {
                let at_call = log.lock().len();
                crate::sched_point();
                let res = consistent(&e, "r").map(|s| s.into_iter().map(|t| t[0]).collect::<BTreeSet<i64>>());
                let at_ret = log.lock().len();
                reads.lock().push((at_call, at_ret, res));
            }
        }));
    }
    let sched = Sched::new();
    let out = sched.run(bodies, Strategy::Random(ctx.seed ^ k.wrapping_mul(0x2545_F491)), Duration::from_secs(20), |_, _| None);
    ctx.eval();
    if out.timed_out {
        ctx.inconclusive(format!("case {k}: schedule did not finish (inconclusive)"));
        return;
    }
    if alternations(&out.trace) >= 2 {
        ctx.nontrivial(trace_hash(&out.trace));
    }
    let log = log.lock().clone();
    let wit = |extra: serde_json::Value| json!({"schedule": out.trace.iter().map(|(t, p)| format!("{t}:{p}")).collect::<Vec<_>>(), "events": log.iter().map(|(c, i, p)| format!("{c}{i}{}", if *p == 0 { "?" } else { "!" })).collect::<Vec<_>>(), "detail": extra});
    for (at_call, at_ret, res) in reads.lock().iter() {
        match res {
            Err(x) => {
                let class = if x.contains("isconnected") { "worker-disconnected" } else { "consistent-read-failed" };
                ctx.violation(k, &format!("C19:{class}:under-concurrency"), format!("read_relation_consistent failed: {x}"), wit(json!({})));
                return;
            }
            Ok(got) => {
                let before = &log[..*at_call];
                let until = &log[..*at_ret];
                let mut must: BTreeSet<i64> = [900].into_iter().collect();
                for (c, id, p) in before {
                    if *c == 'i' && *p == 1 {
                        must.insert(*id);
                    }
                }
                for (c, id, _) in until {
                    if *c == 'd' {
                        must.remove(id);
                    }
                }
                let begun: BTreeSet<i64> = until.iter().filter(|(c, _, _)| *c == 'i').map(|x| x.1).chain([900]).collect();
                let deleted_before: BTreeSet<i64> = before.iter().filter(|(c, _, p)| *c == 'd' && *p == 1).map(|x| x.1).collect();
                let missing: Vec<&i64> = must.difference(got).collect();
                let ghost: Vec<&i64> = got.iter().filter(|i| !begun.contains(i) || deleted_before.contains(i)).collect();
                if !missing.is_empty() {
                    ctx.violation(k, "C19:consistent-read-misses-acknowledged-write", format!("read {got:?} lacks {missing:?}, acknowledged before the read began"), wit(json!({"read_window": [at_call, at_ret]})));
                    return;
                }
                if !ghost.is_empty() {
                    ctx.violation(k, "C19:consistent-read-shows-unwritten-or-deleted-tuple", format!("read {got:?} contains {ghost:?}"), wit(json!({"read_window": [at_call, at_ret]})));
                    return;
                }
            }
        }
    }
    // final quiescent state
    let mut model: BTreeSet<i64> = [900].into_iter().collect();
    for (c, id, p) in &log {
        if *p == 1 {
            if *c == 'i' { model.insert(*id); } else { model.remove(id); }
        }
    }
    match consistent(&e, "r").map(|s| s.into_iter().map(|t| t[0]).collect::<BTreeSet<i64>>()) {
        Ok(got) if got == model => {
            if k % 40 == 1 {
                ctx.sample(wit(json!({"final": got})));
            }
        }
        other => ctx.violation(k, "C19:final-mirror-differs-after-concurrent-writes", format!("final consistent read {other:?}, model {model:?}"), wit(json!({}))),
    }
}

pub fn run19(ctx: &mut Ctx) {
    let total = ctx.sz(200, 4000);
    for k in ctx.cases(total) {
        ctx.at_case(k);
        if k % 4 == 3 {
            c19_scheduled(ctx, k);
        } else {
            c19_sequential(ctx, k);
        }
    }
}
