//! C04 — answers are independent of clause order and of what the engine evaluated before.

use crate::ctx::{guarded, Ctx, Meta};
use crate::eng::*;
use crate::gen::*;
use crate::refdl::{self, Clause};
use crate::store::*;
use inputlayer::IQLEngine;
use serde_json::json;

pub static META: Meta = Meta {
    id: "C04",
    level: "exploration",
    rule: "generated stratified programs x EDB; (a) every permutation of the clauses in front of the query clause for <= 5 such clauses (24 sampled permutations beyond) and one variant with a duplicated clause must give the canonical order's answer; (b) the same program on an engine that already evaluated 1-6 other generated programs (bound recursive queries, aggregates, negation) over the same base facts must give the fresh engine's answer; (c) the engine's base facts (input_tuples) must be identical before and after every evaluation; (e) handler-style bound queries `__query__(_c0, ..) <- h(_c0, ..), _c0 = k` for two constants on one engine vs a fresh engine; (d) the same rule set registered as persistent rules in two shuffled orders in two stores (and after restart) must answer alike; non-trivial = canonical answer non-empty and >= 2 permutable clauses; distinct = program + EDB",
    assumptions: &["the query clause stays last (the API returns the relation of the last rule's head)", "reference = canonical clause order on a fresh engine; C01 ties that to the least model"],
    floor: 40,
    watchdog: (0, 0),
};

fn run_clauses(cs: &[Clause], edb: &refdl::Db) -> Result<refdl::Rel, String> {
    run_text(&refdl::program_text(cs), edb, &RunOpts::default()).map(|a| a.set())
}

/// the relations that existed before must be unchanged; relations the engine adds for its own use
/// (magic-set seeds and the like) are not stored base facts
fn same_base(now: &std::collections::HashMap<String, Vec<inputlayer::Tuple>>, before: &std::collections::HashMap<String, Vec<inputlayer::Tuple>>) -> bool {
    before.iter().all(|(k, v)| now.get(k) == Some(v))
}

fn perms(n: usize, r: &mut crate::rng::Rng) -> Vec<Vec<usize>> {
    let mut out = Vec::new();
    if n <= 5 {
        // Heap's algorithm, iterative
        let mut a: Vec<usize> = (0..n).collect();
        let mut c = vec![0usize; n];
        out.push(a.clone());
        let mut i = 0;
        while i < n {
            if c[i] < i {
                if i % 2 == 0 {
                    a.swap(0, i);
                } else {
                    a.swap(c[i], i);
                }
                out.push(a.clone());
                c[i] += 1;
                i = 0;
            } else {
                c[i] = 0;
                i += 1;
            }
        }
    } else {
        for _ in 0..24 {
            let mut a: Vec<usize> = (0..n).collect();
            r.shuffle(&mut a);
            out.push(a);
        }
    }
    out
}

pub fn run(ctx: &mut Ctx) {
    let total = ctx.sz(600, 10_000);
    let opts = GenOpts { union: 40, ..GenOpts::default() };
    for k in ctx.cases(total) {
        let mut r = ctx.rng(k);
        let p = gen_program(&mut r, &opts);
        if refdl::evaluate(&p.clauses, &p.edb, false).is_err() {
            continue;
        }
        let Ok(canon) = run_clauses(&p.clauses, &p.edb) else {
            ctx.count("engine_rejected");
            continue;
        };
        // the query clauses (head q) stay at the end, in their order
        let front: Vec<Clause> = p.clauses.iter().filter(|c| c.head != "q").cloned().collect();
        let back: Vec<Clause> = p.clauses.iter().filter(|c| c.head == "q").cloned().collect();
        let f = crate::shrink::features(&p).iter().copied().collect::<Vec<_>>().join("+");
        if !canon.is_empty() && front.len() >= 2 {
            ctx.nontrivial_str(&format!("{}|{:?}", p.text(), p.edb));
            if k % 25 == 0 {
                ctx.sample(json!({"case": k, "input": p.to_json(), "permutable_clauses": front.len()}));
            }
        }
        // (a) permutations + duplicated clause
        let mut done = false;
        for perm in perms(front.len(), &mut r) {
            let mut cs: Vec<Clause> = perm.iter().map(|i| front[*i].clone()).collect();
            cs.extend(back.iter().cloned());
            ctx.eval();
            match run_clauses(&cs, &p.edb) {
                Ok(a) if a == canon => {}
                other => {
                    let kind = match &other { Ok(_) => "different-answer", Err(_) => "error-in-one-order" };
                    ctx.violation(k, &format!("C04:clause-order:{kind}:{f}"), "a permutation of the same clauses gives another outcome".into(), json!({"canonical": refdl::program_text(&p.clauses).lines().collect::<Vec<_>>(), "permuted": refdl::program_text(&cs).lines().collect::<Vec<_>>(), "edb": p.to_json()["edb"], "canonical_answer": rel_json(&canon), "permuted_outcome": match other { Ok(a) => rel_json(&a), Err(e) => json!(e) }}));
                    done = true;
                    break;
                }
            }
        }
        if done {
            continue;
        }
        if !front.is_empty() {
            let mut cs = front.clone();
            cs.push(front[r.below(front.len())].clone());
            cs.extend(back.iter().cloned());
            ctx.eval();
            match run_clauses(&cs, &p.edb) {
                Ok(a) if a == canon => {}
                other => {
                    ctx.violation(k, &format!("C04:duplicated-clause:{f}"), "writing a clause twice changes the outcome".into(), json!({"program": refdl::program_text(&cs).lines().collect::<Vec<_>>(), "edb": p.to_json()["edb"], "canonical_answer": rel_json(&canon), "outcome": match other { Ok(a) => rel_json(&a), Err(e) => json!(e) }}));
                    continue;
                }
            }
        }
        // (b)+(c) engine history: other programs first, on one engine over the same base facts
        let nprev = 1 + r.below(6);
        let hist_opts = GenOpts { bound_query: 60, agg: 25, rec: 40, ..GenOpts::default() };
        let res = guarded(|| {
            let mut e = IQLEngine::new();
            load_edb(&mut e, &p.edb);
            let base0 = e.input_tuples().clone();
            let mut prev_texts = Vec::new();
            // the earlier programs: random ones, plus variants of the program itself whose constants
            // are shifted (same relations, same binding pattern, other values) - those share hidden
            // per-query state such as magic-set seeds with the program under test
            let mut earlier: Vec<String> = Vec::new();
            for v in 1..=2i64 {
                let mut q = p.clone();
                let mut changed = false;
                for c in q.clauses.iter_mut() {
                    for l in c.body.iter_mut() {
                        if let refdl::Lit::Pos(a) = l {
                            for t in a.args.iter_mut() {
                                if let refdl::Term::C(refdl::V::I(x)) = t {
                                    *x = (*x + v) % 5;
                                    changed = true;
                                }
                            }
                        }
                    }
                }
                if changed {
                    earlier.push(q.text());
                }
            }
            for _ in 0..nprev {
                let mut q = gen_program(&mut r, &hist_opts);
                q.edb = p.edb.clone();
                earlier.push(q.text());
            }
            r.shuffle(&mut earlier);
            for t in earlier {
                let _ = e.execute_tuples(&t);
                prev_texts.push(t);
                if !same_base(e.input_tuples(), &base0) {
                    return Err(("base-facts-changed-by-evaluation".to_string(), prev_texts, None));
                }
            }
            let ans = e.execute_tuples(&p.text()).map(|raw| raw.iter().map(tuple_to_tup).collect::<refdl::Rel>());
            if !same_base(e.input_tuples(), &base0) {
                return Err(("base-facts-changed-by-evaluation".to_string(), prev_texts, None));
            }
            match ans {
                Ok(a) if a == canon => Ok(()),
                Ok(a) => Err(("answer-depends-on-engine-history".to_string(), prev_texts, Some(rel_json(&a)))),
                Err(e) => Err(("error-only-on-used-engine".to_string(), prev_texts, Some(json!(e)))),
            }
        });
        ctx.evals(nprev as u64 + 1);
        match res {
            Ok(Ok(())) => {}
            Ok(Err((kind, prev, got))) => {
                ctx.violation(k, &format!("C04:{kind}:{f}"), "the same program answers differently on an engine that evaluated other programs before".into(), json!({"program": p.to_json(), "earlier_programs": prev, "fresh_answer": rel_json(&canon), "used_engine_outcome": got}));
                continue;
            }
            Err(pn) => {
                ctx.inconclusive(format!("case {k}: panic in history run: {pn}"));
            }
        }
        // (e) handler-style bound queries (`?h(k, V..)` is sent to the engine as a `__query__` rule whose
        // first argument is bound through an equality): the same engine asked for k1 and then k2 must
        // answer k2 like a fresh engine does
        let mut idb: Vec<(String, usize)> = Vec::new();
        for c in &front {
            if !idb.iter().any(|(h, _)| h == &c.head) && !c.hargs.iter().any(|h| matches!(h, refdl::HeadArg::Agg(..))) {
                idb.push((c.head.clone(), c.hargs.len()));
            }
        }
        let rules_text = refdl::program_text(&front);
        let mut bad_e = false;
        for (h, ar) in idb.iter().take(2) {
            if bad_e {
                break;
            }
            let vars: Vec<String> = (1..*ar).map(|i| format!("V{i}")).collect();
            let q_of = |kc: i64| -> String {
                let args = std::iter::once("_c0".to_string()).chain(vars.iter().cloned()).collect::<Vec<_>>().join(", ");
                format!("{rules_text}\n__query__({args}) <- {h}({args}), _c0 = {kc}")
            };
            let fresh = |kc: i64| run_text(&q_of(kc), &p.edb, &RunOpts::default()).map(|a| a.set());
            let (k1, k2) = (r.range(0, 4), r.range(0, 4));
            let res = guarded(|| {
                let mut e = IQLEngine::new();
                load_edb(&mut e, &p.edb);
                let _ = e.execute_tuples(&q_of(k1));
                let _ = e.execute_tuples(&q_of(k1));
                e.execute_tuples(&q_of(k2)).map(|raw| raw.iter().map(tuple_to_tup).collect::<refdl::Rel>())
            });
            ctx.evals(4);
            if let (Ok(want), Ok(got)) = (fresh(k2), res) {
                ctx.count("bound_query_pairs");
                if got.as_ref().ok() != Some(&want) {
                    ctx.violation(k, &format!("C04:bound-query-depends-on-earlier-bound-query:{f}"), format!("`?{h}({k2}, ..)` after `?{h}({k1}, ..)` on one engine differs from a fresh engine"), json!({"program": p.to_json(), "relation": h, "first_constant": k1, "second_constant": k2, "fresh_answer": rel_json(&want), "used_engine_outcome": match got { Ok(g) => rel_json(&g), Err(e) => json!(e) }}));
                    bad_e = true;
                }
            }
        }
        if bad_e {
            continue;
        }
        // (d) persistent rules registered in two orders (1 case in 8: stores are slow)
        if k % 8 == 0 && !front.is_empty() && front.iter().all(|c| !c.hargs.iter().any(|h| matches!(h, refdl::HeadArg::Agg(..)))) {
            let mut answers = Vec::new();
            for variant in 0..2 {
                let scratch = Scratch::new("c04");
                let Ok(h) = crate::hnd::H::open(&scratch.path, &StoreOpts::default()) else { continue };
                for (rel, ts) in &p.edb {
                    if !ts.is_empty() {
                        let _ = h.h.get_storage().insert_tuples_into("default", rel, ts.iter().map(tup_to_tuple).collect());
                    }
                }
                let mut order: Vec<usize> = (0..front.len()).collect();
                if variant == 1 {
                    r.shuffle(&mut order);
                }
                let mut ok = true;
                for i in &order {
                    if h.exec("default", &format!("+{}", refdl::program_text(&[front[*i].clone()]))).is_err() {
                        ok = false; // e.g. a rule whose dependency is not registered yet: orders are not comparable
                    }
                }
                let q = back.iter().map(|c| refdl::program_text(&[c.clone()])).collect::<Vec<_>>().join("\n");
                let live = h.h.get_storage().execute_query_with_rules_tuples_on("default", &q).map(|v| v.iter().map(tuple_to_tup).collect::<refdl::Rel>()).map_err(|e| format!("{e}"));
                h.h.shutdown();
                drop(h);
                let again = open(&scratch.path, &StoreOpts::default()).and_then(|e| e.execute_query_with_rules_tuples_on("default", &q).map(|v| v.iter().map(tuple_to_tup).collect::<refdl::Rel>()).map_err(|e| format!("{e}")));
                answers.push((ok, live, again, order));
            }
            ctx.evals(2);
            if answers.len() == 2 && answers[0].0 && answers[1].0 {
                let (a, b) = (&answers[0], &answers[1]);
                if a.1.is_ok() && b.1.is_ok() && (a.1 != b.1 || a.2 != b.2 || a.1 != a.2) {
                    ctx.violation(k, &format!("C04:persistent-rule-registration-order:{f}"), "the same rule set registered in another order (or reloaded from disk) answers differently".into(), json!({"program": p.to_json(), "order_a": a.3, "order_b": b.3, "live_a": a.1.as_ref().ok().map(rel_json), "live_b": b.1.as_ref().ok().map(rel_json), "restart_a": a.2.as_ref().ok().map(rel_json), "restart_b": b.2.as_ref().ok().map(rel_json)}));
                }
                ctx.count("catalog_order_pairs");
            }
        }
    }
}
