//! C21 — proof trees are valid derivations; C22 — every answer can be explained.
//! Oracle: an independent proof checker (own clause parser, own unifier / arithmetic / comparison
//! evaluation, facts looked up in the inserted EDB, derived tuples in the reference model).

use crate::ctx::{Ctx, Meta};
use crate::eng::*;
use crate::gen::*;
use crate::hnd::H;
use crate::refdl::{self, Atom, Clause, Env, HeadArg, Lit, Term, Tup, V};
use crate::store::*;
use inputlayer::provenance::proof_tree::{FactSource, NodeKind, ProofNode, ProofTree};
use serde_json::json;
use std::collections::{BTreeMap, BTreeSet};

pub static META21: Meta = Meta {
    id: "C21",
    level: "exploration",
    rule: "generated stratified programs (joins, constants, repeated variables, wildcards, comparisons, computed columns, negation, self/mutual recursion, head constants, multi-clause heads) registered as persistent rules over a random EDB; `.why ?rel(V0..Vn)` is asked for every derived relation and every returned tree is re-validated node by node: root concludes an answer tuple; each rule node's rule_id is one of the registered clauses, its bindings instantiate the head to the conclusion, the positive body atoms to exactly the conclusions of its non-negation children, every comparison holds and every assignment evaluates to the bound value; edb leaves are stored facts; derived leaves are in the reference model; negation leaves match no tuple of the model; non-trivial = tree with at least one rule node; distinct = program + EDB + relation",
    assumptions: &["the reference model (RefDL) for 'no matching fact' and derived leaves", "aggregate / vector-search nodes are only checked for their conclusion"],
    floor: 50,
    watchdog: (0, 0),
};
pub static META22: Meta = Meta {
    id: "C22",
    level: "exploration",
    rule: "same programs and `.why` requests as C21; for every answer tuple of a rule-defined relation whose reference derivation depth is below the configured limit (generated depths stay <= 12, limit 50): `.why` must succeed, return a tree for that tuple, and the tree's root must be a real proof step (rule / aggregate node), not the `truncated` fallback and not the `derived fact, cannot trace further` fallback; non-trivial = answer tuple of a relation defined by a rule with a join, negation, comparison, constant or recursion; distinct = program + EDB + tuple",
    assumptions: &["reference derivation depth from RefDL"],
    floor: 50,
    watchdog: (0, 0),
};

fn val_to_v(v: &inputlayer::Value) -> V {
    value_to_v(v)
}

fn clause_features(c: &Clause) -> String {
    let mut f: BTreeSet<&str> = BTreeSet::new();
    let npos = c.body.iter().filter(|l| matches!(l, Lit::Pos(_))).count();
    if npos >= 2 {
        f.insert("join");
    }
    for l in &c.body {
        match l {
            Lit::Neg(_) => {
                f.insert("negation");
            }
            Lit::Cmp(..) => {
                f.insert("comparison");
            }
            Lit::Assign(..) => {
                f.insert("arith");
            }
            Lit::Pos(a) => {
                if a.rel == c.head {
                    f.insert("recursive");
                }
                if a.args.iter().any(|t| matches!(t, Term::Wild)) {
                    f.insert("wildcard");
                }
                if a.args.iter().any(|t| matches!(t, Term::C(_))) {
                    f.insert("body-constant");
                }
                let vars: Vec<String> = a.args.iter().filter_map(|t| if let Term::Var(v) = t { Some(v.clone()) } else { None }).collect();
                if vars.iter().collect::<BTreeSet<_>>().len() < vars.len() {
                    f.insert("repeated-var");
                }
            }
        }
    }
    if c.hargs.iter().any(|h| matches!(h, HeadArg::T(Term::C(_)))) {
        f.insert("head-constant");
    }
    if c.hargs.iter().any(|h| matches!(h, HeadArg::Agg(..))) {
        f.insert("aggregate");
    }
    if f.is_empty() {
        "plain".into()
    } else {
        f.into_iter().collect::<Vec<_>>().join("+")
    }
}

fn atom_matches(a: &Atom, env: &Env, tup: &Tup) -> bool {
    refdl::unify(a, tup, env).is_some()
}

/// Err((defect class, description)) for the first invalid node of the tree
fn check_tree(t: &ProofTree, clauses: &[Clause], edb: &refdl::Db, model: &refdl::Db) -> Result<(usize, usize), (String, String)> {
    let mut rule_nodes = 0;
    let mut derived_leaves = 0;
    let mut stack: Vec<&String> = t.roots.iter().collect();
    let mut seen: BTreeSet<&String> = BTreeSet::new();
    let empty = refdl::Rel::new();
    while let Some(id) = stack.pop() {
        if !seen.insert(id) {
            continue;
        }
        let Some(n): Option<&ProofNode> = t.nodes.get(id) else {
            return Err(("dangling-child-id".into(), format!("node {id} is referenced but missing")));
        };
        let concl: Tup = n.conclusion.args.iter().map(val_to_v).collect();
        let pred = &n.conclusion.pred;
        match n.kind {
            NodeKind::Fact => match n.source {
                Some(FactSource::Edb) => {
                    if !edb.get(pred).unwrap_or(&empty).contains(&concl) {
                        return Err(("edb-leaf-not-a-stored-fact".into(), format!("{pred}{concl:?} is not stored")));
                    }
                }
                _ => {
                    derived_leaves += 1;
                    if !model.get(pred).unwrap_or(&empty).contains(&concl) {
                        return Err(("derived-leaf-not-in-model".into(), format!("{pred}{concl:?} is not derivable")));
                    }
                }
            },
            NodeKind::Negation => {
                if model.get(pred).unwrap_or(&empty).contains(&concl) {
                    return Err(("negation-leaf-has-matching-fact".into(), format!("negation leaf claims no {pred}{concl:?} but it holds")));
                }
            }
            NodeKind::Rule => {
                rule_nodes += 1;
                let rid = n.rule_id.clone().unwrap_or_default();
                let Some(parsed) = crate::rparse::parse_clause(&rid) else {
                    return Err(("rule-id-unparsable".into(), format!("rule_id `{rid}`")));
                };
                let Some(cl) = clauses.iter().find(|c| c.to_string() == parsed.to_string()) else {
                    return Err(("rule-id-not-a-registered-clause".into(), format!("rule_id `{rid}` is not one of the KG's clauses")));
                };
                let cf = clause_features(cl);
                let fail = |class: &str, what: String| Err((format!("{class}:{cf}"), format!("{what} in step `{rid}`")));
                if &cl.head != pred {
                    return fail("rule-head-is-another-relation", format!("concludes {pred}"));
                }
                let env: Env = n.bindings.clone().unwrap_or_default().iter().map(|(k, v)| (k.clone(), val_to_v(v))).collect();
                // head
                for (h, c) in cl.hargs.iter().zip(concl.iter()) {
                    let ok = match h {
                        HeadArg::T(Term::C(k)) => k == c,
                        HeadArg::T(Term::Var(v)) => env.get(v) == Some(c),
                        _ => true,
                    };
                    if !ok {
                        return fail("bindings-do-not-instantiate-head-to-conclusion", format!("head {:?} bindings {env:?} conclusion {concl:?}", cl.hargs));
                    }
                }
                if cl.hargs.len() != concl.len() {
                    return fail("conclusion-arity", format!("conclusion {concl:?}"));
                }
                // children
                let mut pos_children: Vec<(String, Tup)> = Vec::new();
                let mut neg_children: Vec<(String, Tup)> = Vec::new();
                for cid in &n.children {
                    let Some(ch) = t.nodes.get(cid) else {
                        return fail("dangling-child-id", cid.clone());
                    };
                    let ct: Tup = ch.conclusion.args.iter().map(val_to_v).collect();
                    if ch.kind == NodeKind::Negation {
                        neg_children.push((ch.conclusion.pred.clone(), ct));
                    } else {
                        pos_children.push((ch.conclusion.pred.clone(), ct));
                    }
                    stack.push(cid);
                }
                let pos_atoms: Vec<&Atom> = cl.body.iter().filter_map(|l| if let Lit::Pos(a) = l { Some(a) } else { None }).collect();
                if pos_atoms.len() != pos_children.len() {
                    return fail("body-atoms-vs-children-count", format!("{} positive atoms, {} non-negation children", pos_atoms.len(), pos_children.len()));
                }
                // assignment of atoms to distinct children (backtracking; bodies are tiny)
                fn assign(atoms: &[&Atom], kids: &[(String, Tup)], used: &mut Vec<bool>, env: &Env) -> bool {
                    let Some((a, rest)) = atoms.split_first() else { return true };
                    for i in 0..kids.len() {
                        if !used[i] && kids[i].0 == a.rel && atom_matches(a, env, &kids[i].1) {
                            // a bound atom must match exactly (unify with a full env does that); wildcards match anything
                            used[i] = true;
                            if assign(rest, kids, used, env) {
                                return true;
                            }
                            used[i] = false;
                        }
                    }
                    false
                }
                // with the node's bindings every variable of a positive atom must be bound, so unify == equality
                for a in &pos_atoms {
                    for t in &a.args {
                        if let Term::Var(v) = t {
                            if !env.contains_key(v) {
                                return fail("body-variable-unbound", format!("variable {v}"));
                            }
                        }
                    }
                }
                let mut used = vec![false; pos_children.len()];
                if !assign(&pos_atoms, &pos_children, &mut used, &env) {
                    return fail("instantiated-body-atoms-differ-from-children", format!("bindings {env:?}, children {pos_children:?}"));
                }
                for l in &cl.body {
                    match l {
                        Lit::Cmp(a, op, b) => {
                            let (x, y) = (refdl::term_val(a, &env), refdl::term_val(b, &env));
                            match (x, y) {
                                (Some(x), Some(y)) => {
                                    if op.holds(x, y) != Some(true) {
                                        return fail("comparison-does-not-hold", format!("{l} under {env:?}"));
                                    }
                                }
                                _ => return fail("comparison-operand-unbound", format!("{l}")),
                            }
                        }
                        Lit::Assign(v, e) => {
                            let want = refdl::eval_arith(e, &env).ok().flatten();
                            if want.is_none() || env.get(v).and_then(V::as_i) != want {
                                return fail("assignment-does-not-evaluate-to-binding", format!("{l} under {env:?}"));
                            }
                        }
                        Lit::Neg(a) => {
                            // the pattern must match no tuple of the model, and a negation child must stand for it
                            if model.get(&a.rel).unwrap_or(&empty).iter().any(|tup| atom_matches(a, &env, tup)) {
                                return fail("negated-atom-has-matching-fact", format!("{l} under {env:?}"));
                            }
                            if !neg_children.iter().any(|(p, _)| p == &a.rel) {
                                return fail("negated-atom-without-negation-child", format!("{l}"));
                            }
                        }
                        Lit::Pos(_) => {}
                    }
                }
            }
            NodeKind::Aggregate | NodeKind::VectorSearch => {
                if n.kind == NodeKind::Aggregate && !model.get(pred).unwrap_or(&empty).contains(&concl) {
                    return Err(("aggregate-conclusion-not-in-model".into(), format!("{pred}{concl:?}")));
                }
                for cid in &n.children {
                    stack.push(cid);
                }
            }
            NodeKind::Truncated | NodeKind::WhyNot => {}
        }
    }
    Ok((rule_nodes, derived_leaves))
}

pub struct Case {
    pub p: GenProgram,
    pub model: refdl::Model,
    pub h: H,
    pub _scratch: Scratch,
}

/// generate a program, register it as persistent rules over its EDB; None when the store refuses it
pub fn setup(ctx: &mut Ctx, r: &mut crate::rng::Rng, k: u64) -> Option<Case> {
    let opts = GenOpts { agg: 0, neg: 25, rec: 30, mutual: 8, arith: 12, cmp: 30, union: 35, bound_query: 0, max_edb: 8, max_idb: 3, ..GenOpts::default() };
    // every 4th program is recursion-heavy: few relations, mostly transitive-closure-like rules
    let rec_heavy = GenOpts { agg: 0, neg: 10, rec: 80, near_tc: 60, exact_tc: 50, mutual: 0, arith: 0, cmp: 10, union: 10, bound_query: 0, max_edb: 8, max_idb: 2, ..GenOpts::default() };
    let p = gen_program(r, if k % 4 == 3 { &rec_heavy } else { &opts });
    let model = refdl::evaluate(&p.clauses, &p.edb, true).ok()?;
    let scratch = Scratch::new("c21");
    let h = H::open(&scratch.path, &StoreOpts::default()).ok()?;
    for (rel, ts) in &p.edb {
        if !ts.is_empty() {
            h.h.get_storage().insert_tuples_into("default", rel, ts.iter().map(tup_to_tuple).collect()).ok()?;
        }
    }
    for c in &p.clauses {
        if let Err(e) = h.exec("default", &format!("+{c}")) {
            ctx.count("program_refused_at_registration");
            ctx.trace(|| format!("case {k}: `{c}` refused: {e}"));
            h.h.shutdown();
            return None;
        }
    }
    Some(Case { p, model, h, _scratch: scratch })
}

fn heads_of(p: &GenProgram) -> Vec<(String, usize)> {
    let mut out: Vec<(String, usize)> = Vec::new();
    for c in &p.clauses {
        if !out.iter().any(|(h, _)| h == &c.head) {
            out.push((c.head.clone(), c.hargs.len()));
        }
    }
    out
}

fn run_both(ctx: &mut Ctx, c22: bool) {
    let total = ctx.sz(200, 1000);
    for k in ctx.cases(total) {
        let mut r = ctx.rng(k);
        let Some(case) = setup(ctx, &mut r, k) else { continue };
        let p = &case.p;
        let pf = crate::shrink::features(p).iter().copied().collect::<Vec<_>>().join("+");
        for (rel, ar) in heads_of(p) {
            let vars: Vec<String> = (0..ar).map(|i| format!("V{i}")).collect();
            let full = case.model.db.get(&rel).cloned().unwrap_or_default();
            let mut variants: Vec<(String, refdl::Rel)> = vec![(format!(".why ?{rel}({})", vars.join(", ")), full.clone())];
            if !full.is_empty() {
                // the same request with one argument bound to a constant of an answer tuple (bound queries on
                // recursive relations go through the engine's demand-driven rewriting): a random tuple and
                // position, and for recursive relations also the tuple with the deepest derivation at every position
                let recursive = p.clauses.iter().any(|c| c.head == rel && c.pos_rels().contains(&rel.as_str()));
                let mut picks: Vec<(Tup, usize)> = vec![(full.iter().nth(r.below(full.len())).cloned().unwrap_or_default(), r.below(ar.max(1)))];
                if recursive {
                    if let Some(d) = full.iter().max_by_key(|t| case.model.depth.get(&(rel.clone(), (*t).clone())).copied().unwrap_or(0)) {
                        for pos in 0..ar.min(2) {
                            picks.push((d.clone(), pos));
                        }
                    }
                }
                picks.dedup();
                for (t, pos) in picks {
                    if let Some(refdl::V::I(c)) = t.get(pos) {
                        let mut a = vars.clone();
                        a[pos] = c.to_string();
                        let q = format!(".why ?{rel}({})", a.join(", "));
                        if variants.iter().all(|(x, _)| x != &q) {
                            variants.push((q, full.iter().filter(|x| x.get(pos) == Some(&refdl::V::I(*c))).cloned().collect()));
                            ctx.count("bound_why_requests");
                        }
                    }
                }
            }
            for (q, want) in variants {
            ctx.eval();
            let rel_clauses: Vec<&Clause> = p.clauses.iter().filter(|c| c.head == rel).collect();
            let rel_features = rel_clauses.iter().map(|c| clause_features(c)).collect::<BTreeSet<_>>().into_iter().collect::<Vec<_>>().join("|");
            let res = case.h.exec("default", &q);
            let wit = |extra: serde_json::Value| json!({"program": p.to_json(), "query": q, "detail": extra});
            match res {
                Err(e) => {
                    if c22 && !want.is_empty() {
                        ctx.violation(k, &format!("C22:why-request-failed:{rel_features}"), format!("`{q}` failed although {rel} has {} answer tuples: {}", want.len(), e.chars().take(120).collect::<String>()), wit(json!(e)));
                    }
                    continue;
                }
                Ok(res) => {
                    let trees = res.proof_trees.clone().unwrap_or_default();
                    if !c22 {
                        for t in &trees {
                            // root must conclude an answer tuple of the queried relation
                            let Some(root) = t.roots.first().and_then(|id| t.nodes.get(id)) else {
                                ctx.violation(k, "C21:tree-without-root", "a proof tree has no root node".into(), wit(json!({})));
                                continue;
                            };
                            let rt: Tup = root.conclusion.args.iter().map(val_to_v).collect();
                            if root.conclusion.pred != rel || !want.contains(&rt) {
                                ctx.violation(k, &format!("C21:root-does-not-conclude-an-answer-tuple:{rel_features}"), format!("root concludes {}{rt:?}", root.conclusion.pred), wit(json!({"tree": serde_json::to_value(t).unwrap_or_default()})));
                                continue;
                            }
                            match check_tree(t, &p.clauses, &p.edb, &case.model.db) {
                                Ok((rules, derived)) => {
                                    if rules > 0 {
                                        ctx.nontrivial(crate::rng::hash_str(&format!("{}|{:?}|{rel}|{rt:?}", p.text(), p.edb)));
                                        if k % 40 == 0 && ctx.report.samples.len() < 3 {
                                            ctx.sample(json!({"program": p.to_json(), "query": q, "tree_nodes": t.nodes.len(), "rule_nodes": rules}));
                                        }
                                    }
                                    ctx.count_n("trees_checked", 1);
                                    ctx.count_n("rule_nodes_checked", rules as u64);
                                    ctx.count_n("obs:derived_fact_leaves", derived as u64);
                                }
                                Err((class, what)) => {
                                    ctx.violation(k, &format!("C21:{class}"), what, wit(json!({"tree": serde_json::to_value(t).unwrap_or_default()})));
                                }
                            }
                        }
                    } else {
                        // C22: every answer tuple with a shallow derivation has a real proof
                        let mut by_root: BTreeMap<Tup, &ProofTree> = BTreeMap::new();
                        for t in &trees {
                            if let Some(root) = t.roots.first().and_then(|id| t.nodes.get(id)) {
                                by_root.insert(root.conclusion.args.iter().map(val_to_v).collect(), t);
                            }
                        }
                        for tup in &want {
                            let depth = case.model.depth.get(&(rel.clone(), tup.clone())).copied().unwrap_or(0);
                            if depth >= 40 {
                                continue;
                            }
                            if rel_features != "plain" {
                                ctx.nontrivial(crate::rng::hash_str(&format!("{}|{:?}|{rel}|{tup:?}", p.text(), p.edb)));
                            }
                            ctx.count_n("answer_tuples", 1);
                            match by_root.get(tup) {
                                None => ctx.violation(k, &format!("C22:no-tree-for-answer-tuple:{rel_features}"), format!("`{q}` returned no tree for {rel}{tup:?} (reference depth {depth})"), wit(json!({"returned_trees": trees.len(), "answers": want.len()}))),
                                Some(t) => {
                                    let root = &t.nodes[&t.roots[0]];
                                    let bad = match (&root.kind, &root.source) {
                                        (NodeKind::Truncated, _) => Some("truncated-root"),
                                        (NodeKind::Fact, Some(FactSource::Derived)) => Some("derived-fact-fallback-root"),
                                        _ => None,
                                    };
                                    if let Some(b) = bad {
                                        // which clauses derive this tuple (reference evaluation, clause by clause)
                                        let deriving: Vec<&&Clause> = rel_clauses
                                            .iter()
                                            .filter(|c| {
                                                refdl::body_valuations(c, &case.model.db).map_or(false, |vals| {
                                                    vals.iter().any(|v| {
                                                        c.hargs.iter().zip(tup.iter()).all(|(h, x)| match h {
                                                            HeadArg::T(Term::C(kc)) => kc == x,
                                                            HeadArg::T(Term::Var(name)) => v.env.get(name) == Some(x),
                                                            _ => true,
                                                        })
                                                    })
                                                })
                                            })
                                            .collect();
                                        // "only through computed-column rules": without the relation's clauses that compute a
                                        // column the tuple is not derivable at all (this also covers tuples that a recursive
                                        // clause re-derives from themselves: such a derivation is not well-founded on its own)
                                        let without_computed: Vec<Clause> = p.clauses.iter().filter(|c| !(c.head == rel && c.body.iter().any(|l| matches!(l, Lit::Assign(..))))).cloned().collect();
                                        let needs_computed = without_computed.len() < p.clauses.len()
                                            && refdl::evaluate(&without_computed, &p.edb, false).map_or(false, |m| !m.db.get(&rel).map_or(false, |r| r.contains(tup)));
                                        let rel_features = if needs_computed || (!deriving.is_empty() && deriving.iter().all(|c| c.body.iter().any(|l| matches!(l, Lit::Assign(..))))) {
                                            "only-derivable-through-computed-column-rules".to_string()
                                        } else {
                                            deriving.iter().map(|c| clause_features(c)).collect::<BTreeSet<_>>().into_iter().collect::<Vec<_>>().join("|")
                                        };
                                        ctx.violation(k, &format!("C22:{b}:{rel_features}"), format!("{rel}{tup:?} (reference derivation depth {depth}) is not explained: root is a {b}"), wit(json!({"tuple": format!("{tup:?}"), "clauses": rel_clauses.iter().map(|c| c.to_string()).collect::<Vec<_>>()})));
                                    } else if k % 40 == 0 && ctx.report.samples.len() < 3 {
                                        ctx.sample(json!({"program": p.to_json(), "query": q, "explained_tuple": format!("{tup:?}"), "reference_depth": depth}));
                                    }
                                }
                            }
                        }
                    }
                }
            }
            }
        }
        let _ = pf;
        case.h.h.shutdown();
    }
}

pub fn run21(ctx: &mut Ctx) {
    run_both(ctx, false);
}
pub fn run22(ctx: &mut Ctx) {
    run_both(ctx, true);
}
