//! C35 — ordered and paginated results are exact slices of the sorted full answer.

use crate::ctx::{Ctx, Meta};
use crate::hnd::{wire_str, H};
use crate::store::*;
use inputlayer::protocol::wire::WireValue;
use inputlayer::{Tuple, Value};
use serde_json::json;
use std::cmp::Ordering;
use std::collections::BTreeMap;

pub static META: Meta = Meta {
    id: "C35",
    level: "exploration",
    rule: "relations t(id, k1, k2) of 0-200 rows filled through the storage API in 7 key modes (small ints with many ties, floats, floats with NaN/+-0.0/inf, ints mixed with floats, strings, bools+nulls, fully mixed kinds); queries `?t(I, K1[:asc|:desc], K2[:asc|:desc])[, limit(n[, o])]` with 1-2 sort keys and n, o from {0,1,2,5,rows/2,rows,rows+3}; against the unsorted, unpaginated answer of the same query: the request must succeed, rows must be a sub-multiset of the full answer of size min(n, max(0,total-o)), total_count must equal the full size, adjacent rows must be ordered on every comparable key pair (same kind, or int/float numerically, never NaN), and when all key values are mutually comparable the key sequence must equal positions [o, o+n) of the independently sorted full answer; non-trivial = >= 5 rows and a sort key or limit; distinct = data + query",
    assumptions: &["ties and incomparable key pairs (NaN, cross-kind) impose no order constraint, as the property leaves them free", "independent comparator: numeric for Int/Float, byte-wise for strings, false<true"],
    floor: 50,
    watchdog: (0, 0),
};

fn cmp_keys(a: &WireValue, b: &WireValue) -> Option<Ordering> {
    let num = |v: &WireValue| -> Option<f64> {
        match v {
            WireValue::Int32(i) => Some(f64::from(*i)),
            WireValue::Int64(i) => Some(*i as f64),
            WireValue::Float64(f) if !f.is_nan() => Some(*f),
            _ => None,
        }
    };
    match (a, b) {
        (WireValue::String(x), WireValue::String(y)) => Some(x.as_bytes().cmp(y.as_bytes())),
        (WireValue::Bool(x), WireValue::Bool(y)) => Some(x.cmp(y)),
        (WireValue::Null, WireValue::Null) => Some(Ordering::Equal),
        _ => match (num(a), num(b)) {
            (Some(x), Some(y)) => x.partial_cmp(&y),
            _ => None,
        },
    }
}

fn gen_key(r: &mut crate::rng::Rng, mode: usize) -> Value {
    match mode {
        0 => Value::Int64(r.range(0, 6)),
        1 => Value::Float64(r.range(-20, 20) as f64 / 4.0),
        2 => Value::Float64(*r.pick(&[f64::NAN, 0.0, -0.0, 1.5, -2.5, f64::INFINITY, f64::NEG_INFINITY, 3.0, 7.25])),
        3 => {
            if r.chance(1, 2) {
                Value::Int64(r.range(-3, 3))
            } else {
                Value::Float64(r.range(-6, 6) as f64 / 2.0)
            }
        }
        4 => Value::string(*r.pick(&["", "a", "B", "ab", "b", "aa", "Z", "z", "10", "9"])),
        5 => r.pick(&[Value::Bool(true), Value::Bool(false), Value::Null]).clone(),
        _ => match r.below(5) {
            0 => Value::Int64(r.range(0, 3)),
            1 => Value::Float64(r.range(0, 6) as f64 / 2.0),
            2 => Value::string(*r.pick(&["a", "b"])),
            3 => Value::Bool(r.chance(1, 2)),
            _ => Value::Null,
        },
    }
}

pub fn run(ctx: &mut Ctx) {
    let total = ctx.sz(240, 4800);
    for k in ctx.cases(total) {
        let mut r = ctx.rng(k);
        let scratch = Scratch::new("c35");
        let Ok(h) = H::open(&scratch.path, &StoreOpts::default()) else { continue };
        let mode = (k % 7) as usize;
        let nrows = *r.pick(&[0usize, 1, 5, 12, 25, 40, 80, 200]);
        let rows: Vec<Tuple> = (0..nrows)
            .map(|i| {
                let m2 = if r.chance(1, 2) { mode } else { 0 };
                Tuple::new(vec![Value::Int64(i as i64), gen_key(&mut r, mode), gen_key(&mut r, m2)])
            })
            .collect();
        if !rows.is_empty() {
            if let Err(e) = h.h.get_storage().insert_tuples_into("default", "t", rows.clone()) {
                ctx.inconclusive(format!("case {k}: insert failed: {e}"));
                continue;
            }
        } else {
            let _ = h.exec("default", "+t(0, 0, 0)\n-t(0, 0, 0)");
        }
        let full = match h.exec("default", "?t(I, K1, K2)") {
            Ok(f) => f,
            Err(e) => {
                ctx.inconclusive(format!("case {k}: unsorted query failed: {e}"));
                continue;
            }
        };
        for qi in 0..6 {
            let dirs = ["", ":asc", ":desc"];
            let d1 = *r.pick(&dirs);
            let d2 = if r.chance(1, 2) { *r.pick(&dirs) } else { "" };
            let choices = [0usize, 1, 2, 5, nrows / 2, nrows, nrows + 3];
            let lim: Option<(usize, Option<usize>)> = match r.below(4) {
                0 => None,
                1 => Some((*r.pick(&choices), None)),
                _ => Some((*r.pick(&choices), Some(*r.pick(&choices)))),
            };
            if d1.is_empty() && d2.is_empty() && lim.is_none() {
                continue;
            }
            let mut q = format!("?t(I, K1{d1}, K2{d2})");
            if let Some((n, o)) = lim {
                q.push_str(&match o {
                    Some(o) => format!(", limit({n}, {o})"),
                    None => format!(", limit({n})"),
                });
            }
            ctx.eval();
            let sig_mode = ["int-ties", "float", "float-nan-zero-inf", "int+float", "string", "bool+null", "mixed-kinds"][mode];
            let wit = |extra: serde_json::Value| json!({"query": q, "rows_in_relation": nrows, "key_mode": sig_mode, "data_sample": rows.iter().take(12).map(tuple_str).collect::<Vec<_>>(), "detail": extra});
            let res = match h.exec("default", &q) {
                Ok(x) => x,
                Err(e) => {
                    let kind = if e.contains("Internal") || e.contains("panic") { "request-failed-internal-error" } else { "request-failed" };
                    ctx.violation(k, &format!("C35:{kind}:{sig_mode}"), format!("`{q}` failed: {}", e.chars().take(120).collect::<String>()), wit(json!(e)));
                    continue;
                }
            };
            if nrows >= 5 {
                ctx.nontrivial(crate::rng::hash_str(&format!("{k}/{qi}/{q}")));
                if k % 30 == 0 && qi == 0 {
                    ctx.sample(wit(json!({"returned": res.rows.len(), "total_count": res.total_count})));
                }
            }
            let (n, o) = match lim {
                None => (usize::MAX, 0),
                Some((n, o)) => (n, o.unwrap_or(0)),
            };
            let want_len = n.min(full.rows.len().saturating_sub(o));
            // sub-multiset + size + total_count
            let mut bag: BTreeMap<String, i64> = BTreeMap::new();
            for t in &full.rows {
                *bag.entry(t.values.iter().map(wire_str).collect::<Vec<_>>().join("|")).or_insert(0) += 1;
            }
            let mut outside = None;
            for t in &res.rows {
                let key = t.values.iter().map(wire_str).collect::<Vec<_>>().join("|");
                let e = bag.entry(key.clone()).or_insert(0);
                *e -= 1;
                if *e < 0 {
                    outside = Some(key);
                    break;
                }
            }
            if let Some(row) = outside {
                ctx.violation(k, &format!("C35:row-not-in-full-answer:{sig_mode}"), format!("`{q}` returned a row (or a repeat) that the full answer does not contain: {row}"), wit(json!({})));
                continue;
            }
            if res.rows.len() != want_len {
                ctx.violation(k, &format!("C35:wrong-slice-size:{sig_mode}"), format!("`{q}` returned {} rows, expected {want_len} (full answer {})", res.rows.len(), full.rows.len()), wit(json!({})));
                continue;
            }
            if res.total_count != full.rows.len() {
                ctx.violation(k, &format!("C35:total-count:{sig_mode}"), format!("`{q}` reports total_count {} but the full answer has {} rows", res.total_count, full.rows.len()), wit(json!({})));
                continue;
            }
            // order of adjacent rows on comparable keys
            let keys: Vec<(usize, bool)> = [(1usize, d1), (2usize, d2)].iter().filter(|(_, d)| !d.is_empty()).map(|(c, d)| (*c, *d == ":desc")).collect();
            let row_cmp = |a: &Vec<WireValue>, b: &Vec<WireValue>| -> Option<Ordering> {
                for (c, desc) in &keys {
                    match cmp_keys(&a[*c], &b[*c]) {
                        None => return None,
                        Some(Ordering::Equal) => {}
                        Some(o) => return Some(if *desc { o.reverse() } else { o }),
                    }
                }
                Some(Ordering::Equal)
            };
            if !keys.is_empty() {
                if let Some(w) = res.rows.windows(2).find(|w| row_cmp(&w[0].values, &w[1].values) == Some(Ordering::Greater)) {
                    ctx.violation(k, &format!("C35:adjacent-rows-out-of-order:{sig_mode}"), format!("`{q}`: row ({}) precedes ({})", w[0].values.iter().map(wire_str).collect::<Vec<_>>().join(", "), w[1].values.iter().map(wire_str).collect::<Vec<_>>().join(", ")), wit(json!({})));
                    continue;
                }
                // exact slice of the sorted answer when every pair of key values is comparable
                let all_comparable = full.rows.iter().all(|a| full.rows.iter().all(|b| row_cmp(&a.values, &b.values).is_some()));
                if all_comparable {
                    let mut sorted: Vec<&Vec<WireValue>> = full.rows.iter().map(|t| &t.values).collect();
                    sorted.sort_by(|a, b| row_cmp(a, b).unwrap_or(Ordering::Equal));
                    let want: Vec<Vec<&WireValue>> = sorted.iter().skip(o).take(n).map(|r| keys.iter().map(|(c, _)| &r[*c]).collect()).collect();
                    let got: Vec<Vec<&WireValue>> = res.rows.iter().map(|t| keys.iter().map(|(c, _)| &t.values[*c]).collect()).collect();
                    let same = want.len() == got.len() && want.iter().zip(got.iter()).all(|(a, b)| a.iter().zip(b.iter()).all(|(x, y)| cmp_keys(x, y) == Some(Ordering::Equal)));
                    if !same {
                        ctx.violation(k, &format!("C35:not-the-sorted-slice:{sig_mode}"), format!("`{q}`: the key sequence is not positions [{o}, {o}+{n}) of the sorted answer"), wit(json!({"got_keys": got.iter().map(|r| r.iter().map(|v| wire_str(v)).collect::<Vec<_>>()).take(12).collect::<Vec<_>>(), "want_keys": want.iter().map(|r| r.iter().map(|v| wire_str(v)).collect::<Vec<_>>()).take(12).collect::<Vec<_>>()})));
                        continue;
                    }
                    ctx.count("exact_slice_checked");
                }
            }
        }
        h.h.shutdown();
    }
}
