//! C07 — answer tuples are well-formed sets (no duplicates, head arity, head constants verbatim).

use crate::ctx::{Ctx, Meta};
use crate::eng::*;
use crate::gen::*;
use crate::refdl::*;
use crate::shrink::{features, shrink};
use serde_json::json;

pub static META: Meta = Meta {
    id: "C07",
    level: "exploration",
    rule: "two generators: (a) the general stratified-program generator, (b) recursive shortest/longest-path style rules with min/max in a recursive head over weighted cyclic graphs, plus head constants; every answer the engine returns is checked structurally: no tuple twice, every tuple has the query head's arity, every head-constant position holds exactly that constant; non-trivial = non-empty answer; distinct = program + EDB",
    assumptions: &["purely structural oracle; which tuples are returned is C01's concern"],
    floor: 30,
    watchdog: (6_000, 15_000),
};

/// Structural defects of an answer for query head `qc` (the last clause's head shape).
pub fn defects(p: &GenProgram, rows: &[Tup]) -> Option<String> {
    let qcs: Vec<&Clause> = p.clauses.iter().filter(|c| c.head == p.query).collect();
    let arity = qcs[0].hargs.len();
    let mut seen = std::collections::BTreeSet::new();
    for t in rows {
        if t.len() != arity {
            return Some(format!("arity:{}-instead-of-{}", t.len(), arity));
        }
        if !seen.insert(t.clone()) {
            return Some("duplicate-tuple".into());
        }
        // head constants: the tuple must match the constant pattern of at least one query clause
        let ok = qcs.iter().any(|c| {
            c.hargs.iter().zip(t.iter()).all(|(h, v)| match h {
                HeadArg::T(Term::C(k)) => k == v,
                _ => true,
            })
        });
        if !ok {
            return Some("head-constant-not-verbatim".into());
        }
    }
    None
}

fn gen_recursive_minmax(r: &mut crate::rng::Rng, allow_unbounded: bool) -> GenProgram {
    // w(X,Y,D): weighted edges; sp(X,Y,min<D>) base + recursive extension
    let mut edb = Db::new();
    let n = 2 + r.below(4);
    let mut w = Rel::new();
    for _ in 0..(2 + r.below(7)) {
        w.insert(vec![V::I(r.range(0, n as i64)), V::I(r.range(0, n as i64)), V::I(r.range(1, 4))]);
    }
    let f = if r.chance(70, 100) { AggFn::Min } else { AggFn::Max };
    if f == AggFn::Max && (!allow_unbounded || r.chance(85, 100)) {
        // recursive max over a cycle does not terminate on the pinned engine even with a bound
        // on D: keep the graph acyclic so the case produces an answer to inspect
        w = w.into_iter().filter(|t| t[0] < t[1]).collect();
        if w.is_empty() {
            w.insert(vec![V::I(0), V::I(1), V::I(1)]);
            w.insert(vec![V::I(1), V::I(2), V::I(2)]);
        }
    }
    edb.insert("w".into(), w);
    let var = |s: &str| Term::Var(s.into());
    let base = Clause {
        head: "sp".into(),
        hargs: vec![HeadArg::T(var("X")), HeadArg::T(var("Y")), HeadArg::Agg(f, "D".into())],
        body: vec![Lit::Pos(Atom { rel: "w".into(), args: vec![var("X"), var("Y"), var("D")] })],
    };
    let mut body = vec![
        Lit::Pos(Atom { rel: "sp".into(), args: vec![var("X"), var("Y"), var("D1")] }),
        Lit::Pos(Atom { rel: "w".into(), args: vec![var("Y"), var("Z"), var("D2")] }),
        Lit::Assign("D".into(), Arith::Bin(Box::new(Arith::T(var("D1"))), Op::Add, Box::new(Arith::T(var("D2"))))),
    ];
    // unbounded recursion over a cyclic graph does not terminate on the pinned engine (the
    // aggregate is not applied inside the fixpoint); those cases only cost watchdog time
    if f == AggFn::Max || !allow_unbounded || r.chance(85, 100) {
        body.push(Lit::Cmp(var("D"), Cmp::Lt, Term::C(V::I(r.range(4, 9)))));
    }
    let rec = Clause { head: "sp".into(), hargs: vec![HeadArg::T(var("X")), HeadArg::T(var("Z")), HeadArg::Agg(f, "D".into())], body };
    let mut clauses = vec![base, rec];
    let mut tags = std::collections::BTreeSet::new();
    tags.insert("rec_minmax");
    if r.chance(50, 100) {
        // a query on top, with a head constant
        clauses.push(Clause {
            head: "q".into(),
            hargs: vec![HeadArg::T(var("X")), HeadArg::T(Term::C(V::I(7))), HeadArg::T(var("D"))],
            body: vec![Lit::Pos(Atom { rel: "sp".into(), args: vec![var("X"), Term::Wild, var("D")] })],
        });
        tags.insert("head_const");
        GenProgram { clauses, edb, arity: Default::default(), query: "q".into(), tags }
    } else {
        GenProgram { clauses, edb, arity: Default::default(), query: "sp".into(), tags }
    }
}

pub fn run(ctx: &mut Ctx) {
    let total = ctx.sz(600, 12000);
    let opts = GenOpts { union: 40, ..GenOpts::default() };
    for k in ctx.cases(total) {
        let mut r = ctx.rng(k);
        let recmm = k % 3 == 0;
        let p = if recmm { gen_recursive_minmax(&mut r, !ctx.quick()) } else { gen_program(&mut r, &opts) };
        ctx.trace(|| format!("{} | {:?}", p.text().replace('\n', " ; "), p.edb));
        ctx.eval();
        ctx.count(if recmm { "gen:recursive_minmax" } else { "gen:general" });
        let ans = match run_engine(&p, &RunOpts::default()) {
            Ok(a) => a,
            Err(_) => {
                ctx.count("engine_rejected");
                continue;
            }
        };
        if !ans.rows.is_empty() {
            ctx.nontrivial_str(&format!("{}|{:?}", p.text(), p.edb));
            ctx.sample(json!({"case": k, "input": p.to_json(), "rows": ans.rows.len()}));
        }
        if let Some(d) = defects(&p, &ans.rows) {
            let (small, class) = if recmm {
                (p.clone(), "recursive-minmax".to_string())
            } else {
                let s = shrink(&p, |c| matches!(run_engine(c, &RunOpts::default()), Ok(a) if defects(c, &a.rows).is_some()), 200);
                let f = features(&s).iter().copied().collect::<Vec<_>>().join("+");
                (s, f)
            };
            let rows = run_engine(&small, &RunOpts::default()).map(|a| a.rows).unwrap_or_default();
            let d2 = defects(&small, &rows).unwrap_or(d);
            let dk = d2.split(':').next().unwrap_or("").to_string();
            ctx.violation(k, &format!("C07:{class}:{dk}"), format!("malformed answer: {d2}"), json!({"minimised": small.to_json(), "answer": rows_json(&rows)}));
        }
    }
}
