//! C24 — vector index search returns valid nearest neighbours; C25 — index state follows its history
//! and persists. Oracle: a history model (id -> latest vector, deleted set, documented auto-compaction)
//! plus brute force with the crate's own exact distance functions.

use crate::ctx::{guarded, Ctx, Meta};
use crate::store::Scratch;
use inputlayer::index_manager::{DistanceMetric, HnswConfig, Index};
use inputlayer::vector_ops::{cosine_distance, euclidean_distance, manhattan_distance};
use inputlayer::HnswIndex;
use serde_json::json;
use std::collections::{BTreeMap, BTreeSet};

pub static META24: Meta = Meta {
    id: "C24",
    level: "exploration",
    rule: "histories of 10-40 operations (insert, insert_batch, update of an existing id, delete of live/absent ids, re-insert of a deleted id, inserts the index must reject - wrong dimension / empty / zero norm - naming deleted, live or new ids, rebuild) on an HnswIndex of dimension 1-8 with up to ~60 vectors (duplicates, small norms), for each of the 4 metrics; after every operation 3 searches with k in {1,3,10,live+2} and ef in {None,1,k,200}: at most k results, no repeated id, every id live in the history model, distances non-decreasing, each distance equal (rel. 1e-3 / abs. 1e-4, f32 arithmetic) to the exact metric distance between the query and the id's latest vector, and when live <= max(ef,k): exactly min(k,live) results whose distances are the brute-force k smallest; dot-product is decided on unit-norm data only; non-trivial = search on an index with >= 3 live vectors; distinct = history + query",
    assumptions: &["exact distances from the crate's vector_ops functions (C26 checks those separately)", "search breadth = the ef passed, or the configured ef_search (50) when None"],
    floor: 100,
    watchdog: (20_000, 60_000),
};
pub static META25: Meta = Meta {
    id: "C25",
    level: "exploration",
    rule: "the same histories with save/load cycles (HnswIndex::save/load) at arbitrary points; after every operation: the identifiers returned by an exhaustive search (k = stored+5, ef = 400) are exactly the model's live ids, a search for each live id's latest vector finds that id at distance ~0, and dimension(), metric(), config, len() and tombstone_count() equal the model's (stored entries incl. tombstoned; tombstones = stored ids currently deleted; compaction when the tombstone ratio exceeds 30% as documented); non-trivial = history with a delete or update and >= 5 operations; distinct = history",
    assumptions: &["the auto-compaction policy (tombstone ratio > 0.3 after a delete) documented in hnsw_index.rs is part of 'implied by the history'"],
    floor: 50,
    watchdog: (20_000, 60_000),
};

#[derive(Clone, Debug, Default)]
struct Model {
    /// stored entries in insertion order (id, vector), including tombstoned ones
    stored: Vec<(usize, Vec<f32>)>,
    deleted: BTreeSet<usize>,
    dim: usize,
}
impl Model {
    fn live(&self) -> Vec<(usize, &Vec<f32>)> {
        self.stored.iter().filter(|(id, _)| !self.deleted.contains(id)).map(|(id, v)| (*id, v)).collect()
    }
    fn upsert(&mut self, id: usize, v: Vec<f32>) {
        if self.dim == 0 {
            self.dim = v.len();
        }
        if let Some(e) = self.stored.iter_mut().find(|(i, _)| *i == id) {
            e.1 = v;
        } else {
            self.stored.push((id, v));
        }
        // "re-insert of a deleted id makes it live again"
        self.deleted.remove(&id);
    }
    fn delete(&mut self, id: usize) {
        if self.stored.iter().any(|(i, _)| *i == id) {
            self.deleted.insert(id);
        }
        if !self.stored.is_empty() && self.deleted.len() as f64 / self.stored.len() as f64 > 0.3 {
            self.compact();
        }
    }
    fn compact(&mut self) {
        let d = self.deleted.clone();
        self.stored.retain(|(i, _)| !d.contains(i));
        self.deleted.clear();
        if self.stored.is_empty() {
            self.dim = 0;
        }
    }
}

fn exact(metric: DistanceMetric, q: &[f32], v: &[f32]) -> f64 {
    match metric {
        DistanceMetric::Euclidean => euclidean_distance(q, v),
        DistanceMetric::Cosine => cosine_distance(q, v),
        DistanceMetric::Manhattan => manhattan_distance(q, v),
        // on unit vectors the index's -(cos) and -(dot) coincide
        DistanceMetric::DotProduct => cosine_distance(q, v) - 1.0,
    }
}
fn unit(v: &[f32]) -> Vec<f32> {
    let n: f32 = v.iter().map(|x| x * x).sum::<f32>().sqrt();
    if n <= 1e-12 {
        v.to_vec()
    } else {
        v.iter().map(|x| x / n).collect()
    }
}
fn close(a: f64, b: f64) -> bool {
    (a - b).abs() <= 1e-4 + 1e-3 * a.abs().max(b.abs())
}

fn gen_vec(r: &mut crate::rng::Rng, dim: usize, pool: &mut Vec<Vec<f32>>, metric: DistanceMetric) -> Vec<f32> {
    if !pool.is_empty() && r.chance(1, 6) {
        return r.pick(pool).clone(); // exact duplicate of an earlier vector
    }
    let scale = if std::env::var("ILV_UNISCALE").is_ok() { 1.0f32 } else { *r.pick(&[1.0f32, 1.0, 1.0, 0.01, 100.0]) };
    let mut v: Vec<f32> = (0..dim).map(|_| (r.range(-40, 40) as f32) / 8.0 * scale).collect();
    if v.iter().all(|x| *x == 0.0) {
        v[0] = 1.0;
    }
    if metric == DistanceMetric::DotProduct {
        v = unit(&v);
    }
    pool.push(v.clone());
    v
}

fn run_hist(ctx: &mut Ctx, k: u64, c25: bool) {
    let mut r = ctx.rng(k);
    let metric = [DistanceMetric::Euclidean, DistanceMetric::Cosine, DistanceMetric::Manhattan, DistanceMetric::DotProduct][(k % 4) as usize];
    let mname = format!("{metric:?}").to_lowercase();
    let dim = 1 + r.below(8);
    let cfg = HnswConfig { m: *r.pick(&[4usize, 16]), ef_construction: *r.pick(&[50usize, 200]), ef_search: 50, metric };
    let mut idx = HnswIndex::new(cfg.clone());
    let mut m = Model::default();
    let mut pool: Vec<Vec<f32>> = Vec::new();
    let steps = 10 + r.below(31);
    let mut hist: Vec<String> = Vec::new();
    let scratch = if c25 { Some(Scratch::new("c25")) } else { None };
    let mut had_del_or_update = false;
    for step in 0..steps {
        let roll = r.below(20);
        let fresh_id = |r: &mut crate::rng::Rng, m: &Model| -> usize {
            loop {
                let id = r.below(80);
                if !m.stored.iter().any(|(i, _)| *i == id) {
                    return id;
                }
            }
        };
        if roll < 8 || m.stored.is_empty() {
            let id = fresh_id(&mut r, &m);
            let v = gen_vec(&mut r, dim, &mut pool, metric);
            hist.push(format!("insert {id} {v:?}"));
            if idx.insert(id, &v).is_ok() {
                m.upsert(id, v);
            }
        } else if roll < 10 {
            let n = 2 + r.below(5);
            let mut batch: Vec<(usize, Vec<f32>)> = Vec::new();
            for _ in 0..n {
                let id = if r.chance(1, 4) && !m.stored.is_empty() { m.stored[r.below(m.stored.len())].0 } else { r.below(80) };
                if batch.iter().any(|(i, _)| *i == id) {
                    continue;
                }
                batch.push((id, gen_vec(&mut r, dim, &mut pool, metric)));
            }
            hist.push(format!("insert_batch {:?}", batch.iter().map(|b| b.0).collect::<Vec<_>>()));
            if idx.insert_batch(&batch).is_ok() {
                for (id, v) in batch {
                    m.upsert(id, v);
                }
            }
        } else if roll < 12 {
            // update an existing live id
            let live = m.live();
            if let Some((id, _)) = live.first().copied().map(|_| live[r.below(live.len())]) {
                let v = gen_vec(&mut r, dim, &mut pool, metric);
                hist.push(format!("update {id} {v:?}"));
                had_del_or_update = true;
                if idx.insert(id, &v).is_ok() {
                    m.upsert(id, v);
                }
            }
        } else if roll < 16 {
            let id = if r.chance(4, 5) { m.stored[r.below(m.stored.len())].0 } else { (100 + r.below(20)) };
            hist.push(format!("delete {id}"));
            had_del_or_update = true;
            idx.delete(id);
            m.delete(id);
        } else if roll == 16 && r.chance(1, 2) {
            // an insert the index must reject (wrong dimension, empty vector, zero norm under cosine/dot):
            // whatever id it names - deleted, live or new - nothing may change
            let id = match r.below(4) {
                0 | 1 if !m.deleted.is_empty() => *m.deleted.iter().next().unwrap_or(&0),
                2 if !m.stored.is_empty() => m.stored[r.below(m.stored.len())].0,
                _ => 90 + r.below(5),
            };
            let bad: Vec<f32> = match r.below(3) {
                0 => vec![1.0; m.dim.max(1) + 1],
                1 => Vec::new(),
                _ => vec![0.0; m.dim.max(1)],
            };
            let expect_reject = bad.is_empty() || (m.dim != 0 && bad.len() != m.dim) || (bad.iter().all(|x| *x == 0.0) && matches!(metric, DistanceMetric::Cosine | DistanceMetric::DotProduct));
            hist.push(format!("invalid-insert {id} {bad:?}"));
            match idx.insert(id, &bad) {
                Err(_) => {}
                Ok(()) => {
                    if expect_reject {
                        ctx.count("obs:invalid_insert_accepted");
                    }
                    m.upsert(id, bad);
                }
            }
        } else if roll < 17 {
            // re-insert a deleted id
            if let Some(id) = m.deleted.iter().next().copied() {
                let v = gen_vec(&mut r, dim, &mut pool, metric);
                hist.push(format!("reinsert {id} {v:?}"));
                if idx.insert(id, &v).is_ok() {
                    m.upsert(id, v);
                }
            }
        } else if roll < 18 {
            let live: Vec<(usize, Vec<f32>)> = m.live().into_iter().map(|(i, v)| (i, v.clone())).collect();
            hist.push(format!("rebuild with {} live vectors", live.len()));
            if idx.rebuild(&live).is_ok() {
                m.stored = live;
                m.deleted.clear();
                if m.stored.is_empty() {
                    m.dim = 0;
                }
            }
        } else if let Some(s) = &scratch {
            hist.push("save + load".into());
            let dir = s.path.join(format!("idx{step}"));
            match idx.save(&dir).and_then(|()| HnswIndex::load(&dir)) {
                Ok(l) => idx = l,
                Err(e) => {
                    ctx.violation(k, &format!("C25:save-load-failed:{mname}"), e, json!({"history": hist}));
                    return;
                }
            }
        }
        let live = m.live();
        let wit = |hist: &Vec<String>, extra: serde_json::Value| json!({"metric": mname, "dim": dim, "history": hist, "detail": extra});
        if c25 {
            ctx.eval();
            // state after every operation
            let all = idx.search(&live.first().map_or(vec![1.0; dim.max(1)], |(_, v)| (*v).clone()), m.stored.len() + 5, Some(400));
            let got: BTreeSet<usize> = all.iter().map(|x| x.0).collect();
            let want: BTreeSet<usize> = live.iter().map(|x| x.0).collect();
            if got != want {
                let ghost: Vec<&usize> = got.difference(&want).collect();
                let missing: Vec<&usize> = want.difference(&got).collect();
                let class = if !ghost.is_empty() && ghost.iter().all(|g| m.deleted.contains(*g)) {
                    "deleted-id-still-returned"
                } else if !missing.is_empty()
                    && missing.iter().all(|i| hist.iter().any(|h| h.starts_with(&format!("reinsert {i} "))) && !hist.iter().any(|h| h.starts_with(&format!("insert {i} "))))
                    // invisible because it is still counted as deleted; a re-inserted id whose tombstone is gone
                    // (tombstone_count as implied by the history) is merely not reached by the approximate
                    // search: the recall classes below
                    && idx.tombstone_count() != m.deleted.len()
                {
                    "reinserted-id-invisible"
                } else if !missing.is_empty() {
                    let norm = |v: &Vec<f32>| v.iter().map(|x| f64::from(*x) * f64::from(*x)).sum::<f64>().sqrt();
                    let mut norms: Vec<f64> = live.iter().map(|(_, v)| norm(v)).collect();
                    norms.sort_by(|a, b| a.partial_cmp(b).unwrap_or(std::cmp::Ordering::Equal));
                    let median = norms[norms.len() / 2].max(1e-9);
                    let vec_of = |i: &usize| live.iter().find(|(j, _)| j == i).map(|x| x.1);
                    if missing.iter().all(|i| vec_of(i).is_some_and(|v| live.iter().any(|(j, w)| j != *i && *w == v))) {
                        "live-id-missing:vector-has-an-exact-duplicate"
                    } else if missing.iter().all(|i| vec_of(i).is_some_and(|v| { let n = norm(v); n > 20.0 * median || n * 20.0 < median })) {
                        "live-id-missing:vector-is-a-magnitude-outlier"
                    } else {
                        "live-id-missing:ordinary-vector"
                    }
                } else {
                    "unknown-id-returned"
                };
                ctx.violation(k, &format!("C25:{class}"), format!("exhaustive search returns ids {got:?}, the history implies {want:?}"), wit(&hist, json!({"ghost": ghost, "missing": missing})));
                return;
            }
            for (id, v) in &live {
                let res = idx.search(v, live.len().max(1), Some(400));
                let me = res.iter().find(|x| x.0 == *id);
                let zero = exact(metric, v, v);
                if me.is_none() {
                    // the id is not returned at all: the approximate graph does not reach it (recall class)
                    ctx.violation(k, "C25:live-id-missing:probe-with-its-own-vector", format!("a search for id {id}'s own vector (k = live, ef = 400) does not return id {id}"), wit(&hist, json!({"id": id})));
                    return;
                }
                if !me.is_some_and(|x| close(x.1, zero)) {
                    ctx.violation(k, &format!("C25:stored-vector-is-not-the-latest:{mname}"), format!("searching for id {id}'s latest vector does not find it at distance ~0: {me:?}"), wit(&hist, json!({"id": id})));
                    return;
                }
            }
            let (len, tomb, d) = (idx.len(), idx.tombstone_count(), idx.dimension());
            if len != m.stored.len() || d != m.dim && !(m.stored.is_empty()) {
                ctx.violation(k, "C25:len-or-dimension", format!("len()={len} dimension()={d}, model: {} stored, dim {}", m.stored.len(), m.dim), wit(&hist, json!({})));
                return;
            }
            if tomb != m.deleted.len() {
                let class = if tomb > m.deleted.len() { "tombstone-count-too-high" } else { "tombstone-count-too-low" };
                ctx.violation(k, &format!("C25:{class}"), format!("tombstone_count()={tomb}, the history implies {}", m.deleted.len()), wit(&hist, json!({"model_deleted": m.deleted})));
                return;
            }
            let c = idx.config();
            if idx.metric() != metric || c.m != cfg.m || c.ef_construction != cfg.ef_construction || c.ef_search != cfg.ef_search {
                ctx.violation(k, "C25:config-changed", format!("config is {c:?}, created with {cfg:?}"), wit(&hist, json!({})));
                return;
            }
        } else {
            // C24: searches after every operation
            for _ in 0..3 {
                let q = if r.chance(1, 3) && !live.is_empty() { live[r.below(live.len())].1.clone() } else { gen_vec(&mut r, dim.max(1), &mut Vec::new(), metric) };
                if q.len() != m.dim && m.dim != 0 {
                    continue;
                }
                let kk = *r.pick(&[1usize, 3, 10, live.len() + 2]);
                let ef = *r.pick(&[None, Some(1usize), Some(kk), Some(200)]);
                let res = match guarded(|| idx.search(&q, kk, ef)) {
                    Ok(x) => x,
                    Err(e) => {
                        ctx.violation(k, &format!("C24:search-panicked:{mname}"), e, wit(&hist, json!({"k": kk, "ef": ef})));
                        return;
                    }
                };
                ctx.eval();
                if live.len() >= 3 {
                    ctx.nontrivial(crate::rng::hash_str(&format!("{k}/{step}/{q:?}/{kk}/{ef:?}")));
                }
                let detail = json!({"query": q, "k": kk, "ef": ef, "result": res, "live": live.len()});
                if res.len() > kk {
                    ctx.violation(k, "C24:more-than-k-results", format!("{} results for k={kk}", res.len()), wit(&hist, detail));
                    return;
                }
                let ids: BTreeSet<usize> = res.iter().map(|x| x.0).collect();
                if ids.len() != res.len() {
                    ctx.violation(k, "C24:repeated-id", "an id is returned twice".into(), wit(&hist, detail));
                    return;
                }
                let lv: BTreeMap<usize, &Vec<f32>> = live.iter().map(|(i, v)| (*i, *v)).collect();
                if let Some(bad) = res.iter().find(|x| !lv.contains_key(&x.0)) {
                    let class = if m.deleted.contains(&bad.0) { "tombstoned-id-returned" } else { "unknown-id-returned" };
                    ctx.violation(k, &format!("C24:{class}"), format!("id {} is not live", bad.0), wit(&hist, detail));
                    return;
                }
                if res.windows(2).any(|w| w[0].1 > w[1].1 + 1e-9) {
                    ctx.violation(k, &format!("C24:distances-decreasing:{mname}"), "distances are not non-decreasing".into(), wit(&hist, detail));
                    return;
                }
                let qq = if metric == DistanceMetric::DotProduct { unit(&q) } else { q.clone() };
                if let Some(bad) = res.iter().find(|x| !close(x.1, exact(metric, &qq, lv[&x.0]))) {
                    ctx.violation(k, &format!("C24:distance-not-exact:{mname}"), format!("id {}: reported {}, exact {}", bad.0, bad.1, exact(metric, &qq, lv[&bad.0])), wit(&hist, detail));
                    return;
                }
                // search breadth = the ef in force (explicit, or the configured ef_search)
                let breadth = ef.unwrap_or(cfg.ef_search);
                if live.len() <= breadth {
                    // which live vectors should have been returned but were not, and what is special about them
                    let missing_class = |res: &Vec<(usize, f64)>| -> &'static str {
                        let mut ranked: Vec<(usize, f64)> = live.iter().map(|(i, v)| (*i, exact(metric, &qq, v))).collect();
                        ranked.sort_by(|a, b| a.1.partial_cmp(&b.1).unwrap_or(std::cmp::Ordering::Equal));
                        let returned: BTreeSet<usize> = res.iter().map(|x| x.0).collect();
                        let worst = res.last().map_or(f64::INFINITY, |x| x.1);
                        let missing: Vec<usize> = ranked.iter().take(kk).filter(|(i, d)| !returned.contains(i) && (*d < worst - 1e-6 || res.len() < kk.min(live.len()))).map(|x| x.0).collect();
                        let norm = |v: &Vec<f32>| v.iter().map(|x| f64::from(*x) * f64::from(*x)).sum::<f64>().sqrt();
                        let mut norms: Vec<f64> = live.iter().map(|(_, v)| norm(v)).collect();
                        norms.sort_by(|a, b| a.partial_cmp(b).unwrap_or(std::cmp::Ordering::Equal));
                        let median = norms[norms.len() / 2].max(1e-9);
                        if missing.iter().all(|i| live.iter().any(|(j, v)| j != i && *v == lv[i])) {
                            "missing-vector-has-an-exact-duplicate"
                        } else if missing.iter().all(|i| { let n = norm(lv[i]); n > 20.0 * median || n * 20.0 < median }) {
                            "missing-vector-is-a-magnitude-outlier"
                        } else {
                            "ordinary-vector-missing"
                        }
                    };
                    let mut bf: Vec<f64> = live.iter().map(|(_, v)| exact(metric, &qq, v)).collect();
                    bf.sort_by(|a, b| a.partial_cmp(b).unwrap_or(std::cmp::Ordering::Equal));
                    bf.truncate(kk);
                    let got: Vec<f64> = res.iter().map(|x| x.1).collect();
                    if got.len() != bf.len() {
                        ctx.violation(k, &format!("C24:fewer-than-min-k-live-results:{}:{mname}", missing_class(&res)), format!("{} results, min(k,live) = {}", got.len(), bf.len()), wit(&hist, detail));
                        return;
                    }
                    if !got.iter().zip(bf.iter()).all(|(a, b)| close(*a, *b)) {
                        ctx.violation(k, &format!("C24:not-the-true-nearest:{}:{mname}", missing_class(&res)), format!("distances {got:?}, brute force {bf:?}"), wit(&hist, detail));
                        return;
                    }
                    ctx.count("exact_knn_checked");
                }
            }
        }
    }
    if c25 && had_del_or_update && hist.len() >= 5 {
        ctx.nontrivial(crate::rng::hash_str(&hist.join(";")));
    }
    if k % 40 == 0 {
        ctx.sample(json!({"metric": mname, "dim": dim, "history_head": hist.iter().take(8).collect::<Vec<_>>(), "operations": hist.len()}));
    }
}

pub fn run24(ctx: &mut Ctx) {
    let total = ctx.sz(240, 4800);
    for k in ctx.cases(total) {
        run_hist(ctx, k, false);
    }
}
pub fn run25(ctx: &mut Ctx) {
    let total = ctx.sz(240, 4800);
    for k in ctx.cases(total) {
        run_hist(ctx, k, true);
    }
}
