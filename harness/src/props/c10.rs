//! C10 — session state is isolated. History checker over concurrent sessions and a persistent writer
//! on one Handler: every session answer must equal (persistent prefix in the call/return window) U
//! (that session's own facts), evaluated with that session's own rules; nothing ephemeral leaks.

use crate::ctx::{Ctx, Meta};
use crate::hnd::H;
use crate::store::*;
use inputlayer::protocol::wire::{QueryResult, WireValue};
use serde_json::json;
use std::collections::BTreeSet;
use std::sync::atomic::{AtomicI64, Ordering};
use std::sync::Arc;

pub static META: Meta = Meta {
    id: "C10",
    level: "exploration",
    rule: "3 WebSocket-style sessions and 1 persistent writer run as real threads against one Handler (tokio multi-thread runtime; each session 12-25 operations: ephemeral fact insert incl. values equal to persistent facts and repeats, a session rule `mine(X)` whose definition differs per session, a session count rule, `.session clear`, queries of r, mine and the count; the writer follows a fixed script of single-fact requests: insert the next fresh value 1000, 1001, ... or delete a value it inserted earlier), with random short pauses; every query answer must equal, for some j with acknowledged-at-call <= j <= begun-at-return, the model answer over (persistent relation after the writer's first j requests) U own session facts under the session's own rules; after the run the persistent relation holds exactly the writer's facts, no persistent rule exists, and a session-less request sees no ephemeral fact or rule; request-local programs (fact/rule + query in one request) are checked the same way and must leave nothing behind; distinct = history; non-trivial = history with >= 5 queries overlapping writer activity",
    assumptions: &["boundary stamps (writer's begun/acknowledged counters) are read by the session thread right before the call and right after the return", "threads are free-running (handler work runs on tokio's blocking pool, outside the scheduler's control)"],
    floor: 20,
    watchdog: (60_000, 120_000),
};

fn ints(q: &QueryResult) -> Vec<i64> {
    q.rows.iter().filter_map(|t| match t.values.first() { Some(WireValue::Int64(i)) => Some(*i), Some(WireValue::Int32(i)) => Some(i64::from(*i)), _ => None }).collect()
}

#[derive(Clone, Debug)]
struct Obs {
    session: usize,
    query: String,
    lo: i64,
    hi: i64,
    facts: BTreeSet<i64>,
    mine_threshold: Option<i64>,
    has_count_rule: bool,
    answer: Result<Vec<i64>, String>,
}

pub fn run(ctx: &mut Ctx) {
    let total = ctx.sz(40, 800);
    for k in ctx.cases(total) {
        let mut r = ctx.rng(k);
        let scratch = Scratch::new("c10");
        let Ok(h) = H::open(&scratch.path, &StoreOpts::default()) else { continue };
        let _ = h.exec("default", "+r(999)\n-r(999)");
        let h = Arc::new(h);
        let begun = Arc::new(AtomicI64::new(0));
        let acked = Arc::new(AtomicI64::new(0));
        // writer script: insert the next fresh value, or delete a value it inserted earlier; states[j] is
        // the persistent relation after the first j operations
        let nwrites = 8 + r.below(10) as i64;
        let mut wops: Vec<(bool, i64)> = Vec::new();
        let mut states: Vec<BTreeSet<i64>> = vec![BTreeSet::new()];
        let mut next = 0i64;
        for _ in 0..nwrites {
            let mut cur = states.last().cloned().unwrap_or_default();
            if !cur.is_empty() && r.chance(1, 3) {
                let live: Vec<i64> = cur.iter().copied().collect();
                let v = live[r.below(live.len())];
                wops.push((false, v));
                cur.remove(&v);
            } else {
                let v = 1000 + next;
                next += 1;
                wops.push((true, v));
                cur.insert(v);
            }
            states.push(cur);
        }
        let states = Arc::new(states);
        let obs: Arc<parking_lot::Mutex<Vec<Obs>>> = Arc::new(parking_lot::Mutex::new(Vec::new()));
        let mut threads = Vec::new();
        {
            let (h, begun, acked) = (Arc::clone(&h), Arc::clone(&begun), Arc::clone(&acked));
            let pause = r.below(3) as u64;
            threads.push(std::thread::spawn(move || {
                for (ins, v) in wops {
                    begun.fetch_add(1, Ordering::SeqCst);
                    if h.exec("default", &format!("{}r({v})", if ins { '+' } else { '-' })).is_err() {
                        break;
                    }
                    acked.fetch_add(1, Ordering::SeqCst);
                    std::thread::sleep(std::time::Duration::from_millis(pause));
                }
            }));
        }
        for s in 0..3usize {
            let (h, begun, acked, obs) = (Arc::clone(&h), Arc::clone(&begun), Arc::clone(&acked), Arc::clone(&obs));
            let mut rr = crate::rng::Rng::new(ctx.seed ^ k.wrapping_mul(31) ^ (s as u64 + 1).wrapping_mul(0x9E37));
            threads.push(std::thread::spawn(move || {
                let Ok(sid) = h.h.create_session("default") else { return };
                let mut facts: BTreeSet<i64> = BTreeSet::new();
                let mut mine: Option<i64> = None;
                let mut cnt = false;
                let nops = 12 + rr.below(14);
                for _ in 0..nops {
                    match rr.below(12) {
                        0..=2 => {
                            // ephemeral fact: session-tagged value, a value equal to a persistent fact, or a repeat
                            let v = match rr.below(3) {
                                0 => 100 * (s as i64 + 1) + rr.range(0, 5),
                                1 => 1000 + rr.range(0, 3),
                                _ => facts.iter().next().copied().unwrap_or(100 * (s as i64 + 1)),
                            };
                            if h.exec_as(Some(&sid), None, &format!("r({v})"), None).is_ok() {
                                facts.insert(v);
                            }
                        }
                        3 => {
                            // session rule `mine` with a per-session threshold
                            if mine.is_none() {
                                let th = 100 * (s as i64) + 50;
                                if h.exec_as(Some(&sid), None, &format!("mine(X) <- r(X), X > {th}"), None).is_ok() {
                                    mine = Some(th);
                                }
                            }
                        }
                        4 => {
                            if !cnt && h.exec_as(Some(&sid), None, "cnt(count<X>) <- r(X)", None).is_ok() {
                                cnt = true;
                            }
                        }
                        5 => {
                            if rr.chance(1, 3) && h.exec_as(Some(&sid), None, ".session clear", None).is_ok() {
                                facts.clear();
                                mine = None;
                                cnt = false;
                            }
                        }
                        _ => {
                            let q = match rr.below(3) {
                                1 if mine.is_some() => "?mine(X)",
                                2 if cnt => "?cnt(N)",
                                _ => "?r(X)",
                            };
                            let lo = acked.load(Ordering::SeqCst);
                            let res = h.exec_as(Some(&sid), None, q, None);
                            let hi = begun.load(Ordering::SeqCst);
                            obs.lock().push(Obs { session: s, query: q.to_string(), lo, hi, facts: facts.clone(), mine_threshold: mine, has_count_rule: cnt, answer: res.map(|x| ints(&x)) });
                        }
                    }
                    if rr.chance(1, 3) {
                        std::thread::sleep(std::time::Duration::from_micros(200 * rr.below(5) as u64));
                    }
                }
                let _ = h.h.close_session(&sid);
            }));
        }
        for t in threads {
            let _ = t.join();
        }
        ctx.eval();
        let all = obs.lock().clone();
        let overlapping = all.iter().filter(|o| o.hi > o.lo).count();
        ctx.count_n("session_queries", all.len() as u64);
        ctx.count_n("session_queries_overlapping_writes", overlapping as u64);
        let mut bad = false;
        for o in &all {
            let wit = json!({"session": o.session, "query": o.query, "own_session_facts": o.facts, "mine_threshold": o.mine_threshold, "acknowledged_at_call": o.lo, "begun_at_return": o.hi, "answer": format!("{:?}", o.answer)});
            let Ok(ans) = &o.answer else {
                ctx.violation(k, "C10:session-query-failed", format!("session {} `{}` failed: {:?}", o.session, o.query, o.answer), wit);
                bad = true;
                break;
            };
            let ok = (o.lo..=o.hi).any(|j| {
                let mut base: BTreeSet<i64> = states[(j.max(0) as usize).min(states.len() - 1)].clone();
                base.extend(o.facts.iter().copied());
                match o.query.as_str() {
                    "?r(X)" => ans.iter().copied().collect::<BTreeSet<i64>>() == base && ans.len() == base.len(),
                    "?mine(X)" => {
                        let th = o.mine_threshold.unwrap_or(i64::MAX);
                        let want: BTreeSet<i64> = base.iter().copied().filter(|x| *x > th).collect();
                        ans.iter().copied().collect::<BTreeSet<i64>>() == want && ans.len() == want.len()
                    }
                    _ => (base.is_empty() && ans.is_empty()) || ans == &vec![base.len() as i64],
                }
            });
            if !ok {
                // classify
                let got: BTreeSet<i64> = ans.iter().copied().collect();
                let foreign = got.iter().any(|x| *x < 1000 && *x >= 100 && !o.facts.contains(x));
                let class = if foreign {
                    "another-sessions-fact-visible"
                } else if o.query == "?cnt(N)" {
                    let dup = o.facts.iter().any(|x| *x >= 1000);
                    if dup { "count-with-session-fact-equal-to-persistent-fact" } else { "count-differs" }
                } else if o.query == "?mine(X)" {
                    "session-rule-answer-differs"
                } else if ans.len() != got.len() {
                    "duplicate-rows"
                } else {
                    "answer-is-no-admissible-state"
                };
                ctx.violation(k, &format!("C10:{class}"), format!("session {} `{}` answered {ans:?}; own facts {:?}, persistent prefix window [{}, {}]", o.session, o.query, o.facts, o.lo, o.hi), wit);
                bad = true;
                break;
            }
        }
        if !bad {
            // nothing ephemeral may be left behind or have reached persistent state
            let persistent: BTreeSet<i64> = dump_facts(&h.h.get_storage(), "default").ok().and_then(|f| f.get("r").map(|v| v.iter().filter_map(|t| t.values()[0].as_i64()).collect())).unwrap_or_default();
            let want: BTreeSet<i64> = states[(acked.load(Ordering::SeqCst) as usize).min(states.len() - 1)].clone();
            if persistent != want {
                ctx.violation(k, "C10:session-operation-changed-persistent-facts", format!("persistent r = {persistent:?}, the writer's acknowledged facts are {want:?}"), json!({}));
                bad = true;
            }
            let rules = h.h.get_storage().list_rules_in("default").unwrap_or_default();
            if !bad && !rules.is_empty() {
                ctx.violation(k, "C10:session-rule-became-persistent", format!("persistent rules after the run: {rules:?}"), json!({}));
                bad = true;
            }
            if !bad {
                if let Ok(q) = h.exec("default", "?r(X)") {
                    let got: BTreeSet<i64> = ints(&q).into_iter().collect();
                    if got != want {
                        ctx.violation(k, "C10:ephemeral-fact-visible-without-session", format!("session-less `?r(X)` = {got:?}, expected {want:?}"), json!({}));
                        bad = true;
                    }
                }
            }
            // request-local: fact + rule + query in one request; the next request must not see them
            if !bad {
                let _ = h.exec("default", "r(77)\nlocal(X) <- r(X), X < 100\n?local(X)");
                let leak_fact = h.exec("default", "?r(X)").map(|q| ints(&q).contains(&77)).unwrap_or(false);
                let leak_rule = h.exec("default", "?local(X)").map(|q| !q.rows.is_empty()).unwrap_or(false);
                if leak_fact || leak_rule {
                    ctx.violation(k, &format!("C10:request-local-{}-leaks-into-next-request", if leak_fact { "fact" } else { "rule" }), "a fact/rule written inside one request is visible to the next request".into(), json!({}));
                    bad = true;
                }
            }
        }
        if !bad && overlapping >= 5 {
            ctx.nontrivial(crate::rng::hash_str(&format!("{k}:{:?}", all.iter().map(|o| (o.session, o.lo, o.hi, o.query.clone())).collect::<Vec<_>>())));
            if k % 6 == 0 {
                ctx.sample(json!({"queries": all.len(), "overlapping_writes": overlapping, "first_queries": all.iter().take(5).map(|o| json!({"session": o.session, "query": o.query, "window": [o.lo, o.hi], "own_facts": o.facts, "answer": format!("{:?}", o.answer)})).collect::<Vec<_>>()}));
            }
        }
        h.h.shutdown();
    }
}
