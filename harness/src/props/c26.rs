//! C26 — vector (and temporal) builtins obey their laws; LSH buckets are a function of
//! (vector, table, hyperplane count) whatever the hyperplane cache does.

use crate::ctx::{guarded, Ctx, Meta};
use inputlayer::temporal_ops as tt;
use inputlayer::vector_ops::*;
use serde_json::json;
use std::collections::BTreeSet;

pub static META: Meta = Meta {
    id: "C26",
    level: "exploration",
    rule: "random vectors of dimension 1-64 (zero vectors, negative, magnitudes 1e-30..1e30, equal pairs): distance symmetry (exact), non-negativity, d(a,a) ~ 0, cosine in [0,2]; quantize/dequantize within one quantisation step (symmetric: max_abs/127, linear/minmax: range/255); lsh_bucket / lsh_bucket_with_distances / int8 variant equal across cache states (cold after clear_lsh_cache, warm, after configure_lsh_cache_size(1) evictions with other keys, after re-growing the cache, from 4 concurrent threads) for tables -3..70 and hyperplane counts 0..70; probe sequences (lsh_probes, lsh_probes_ranked, lsh_multi_probe) start at the bucket, have no repeats, and lsh_probes is non-decreasing in Hamming distance; temporal predicates: overlap symmetry, containment implies overlap, time_add/time_sub inverse, decay in [0,1] and monotone in age; non-trivial = vector with >= 2 distinct non-zero components; distinct = input",
    assumptions: &["the cold-cache value (right after clear_lsh_cache) is the reference for an LSH bucket", "ranked probe sequences are ordered by boundary distance, so only their start and distinctness are checked"],
    floor: 500,
    watchdog: (0, 0),
};

fn gen_vec(r: &mut crate::rng::Rng, dim: usize) -> Vec<f32> {
    let mode = r.below(10);
    (0..dim)
        .map(|_| match mode {
            0 => 0.0,
            1 => (r.range(-8, 8) as f32) * 1e-30,
            2 => (r.range(-8, 8) as f32) * 1e30,
            3 => -(r.range(0, 100) as f32) / 7.0,
            4 => *r.pick(&[0.0f32, -0.0, 1.0, -1.0]),
            _ => (r.range(-1000, 1000) as f32) / 37.0,
        })
        .collect()
}

fn hamming(a: i64, b: i64) -> u32 {
    (a ^ b).count_ones()
}

pub fn run(ctx: &mut Ctx) {
    let total = ctx.sz(3_000, 400_000);
    for k in ctx.cases(total) {
        let mut r = ctx.rng(k);
        let dim = 1 + r.below(64);
        let a = gen_vec(&mut r, dim);
        let b = if r.chance(1, 8) { a.clone() } else { gen_vec(&mut r, dim) };
        ctx.eval();
        let distinct_nz: BTreeSet<u32> = a.iter().filter(|x| **x != 0.0).map(|x| x.to_bits()).collect();
        if distinct_nz.len() >= 2 {
            ctx.nontrivial(crate::rng::hash_str(&format!("{a:?}{b:?}")));
        }
        let wit = |extra: serde_json::Value| json!({"a": a, "b": b, "detail": extra});
        // ---- distances
        type D = fn(&[f32], &[f32]) -> f64;
        let dists: [(&str, D); 3] = [("euclidean", euclidean_distance), ("cosine", cosine_distance), ("manhattan", manhattan_distance)];
        for (name, f) in dists {
            let (ab, ba, aa) = (f(&a, &b), f(&b, &a), f(&a, &a));
            let finite_in = a.iter().chain(b.iter()).all(|x| x.abs() < 1e18);
            if ab.to_bits() != ba.to_bits() && !(ab.is_nan() && ba.is_nan()) {
                ctx.violation(k, &format!("C26:distance-not-symmetric:{name}"), format!("d(a,b)={ab} d(b,a)={ba}"), wit(json!({})));
            }
            if finite_in && !ab.is_nan() {
                let lo = if name == "cosine" { -1e-6 } else { 0.0 };
                if ab < lo {
                    ctx.violation(k, &format!("C26:distance-negative:{name}"), format!("d(a,b)={ab}"), wit(json!({})));
                }
                if name == "cosine" && ab > 2.0 + 1e-6 {
                    ctx.violation(k, "C26:cosine-above-2", format!("d(a,b)={ab}"), wit(json!({})));
                }
                let zero_vec = a.iter().all(|x| *x == 0.0);
                if !(name == "cosine" && zero_vec) && !aa.is_nan() && aa.abs() > 1e-5 {
                    ctx.violation(k, &format!("C26:distance-to-self-not-zero:{name}"), format!("d(a,a)={aa}"), wit(json!({})));
                }
            }
        }
        // ---- quantisation (finite moderate inputs)
        if a.iter().all(|x| x.abs() <= 1e30) {
            let q = quantize_vector_symmetric(&a);
            let max_abs = a.iter().map(|x| x.abs()).fold(0.0f32, f32::max);
            if max_abs > 0.0 {
                let step = f64::from(max_abs) / 127.0;
                let back = dequantize_vector_with_scale(&q, max_abs / 127.0);
                if let Some(i) = (0..a.len()).find(|i| (f64::from(a[*i]) - f64::from(back[*i])).abs() > step * 1.001 + f64::from(f32::MIN_POSITIVE)) {
                    ctx.violation(k, "C26:quantization-error-above-one-step:symmetric", format!("x={} reconstructed={} step={step}", a[i], back[i]), wit(json!({"quantized": q})));
                }
            }
            for (name, q) in [("linear", quantize_vector_linear(&a)), ("minmax", quantize_vector_minmax(&a))] {
                let min = a.iter().copied().fold(f32::INFINITY, f32::min);
                let max = a.iter().copied().fold(f32::NEG_INFINITY, f32::max);
                let range = f64::from(max) - f64::from(min);
                if range > 0.0 && range.is_finite() && q.len() == a.len() {
                    let step = range / 255.0;
                    if let Some(i) = (0..a.len()).find(|i| (f64::from(a[*i]) - (f64::from(min) + (f64::from(q[*i]) + 128.0) * step)).abs() > step * 1.001 + 1e-30) {
                        ctx.violation(k, &format!("C26:quantization-error-above-one-step:{name}"), format!("x={} q={} step={step}", a[i], q[i]), wit(json!({"quantized": q})));
                    }
                }
                if q.len() != a.len() {
                    ctx.violation(k, &format!("C26:quantized-length:{name}"), format!("{} values in, {} out", a.len(), q.len()), wit(json!({})));
                }
            }
        }
        // ---- LSH determinism across cache states (1 case in 4: it takes the global cache lock)
        if k % 4 == 0 {
            let table = r.range(-3, 70);
            let nh = r.below(71);
            let qa = quantize_vector_symmetric(&a);
            let run_all = |v: &Vec<f32>| -> (i64, (i64, Vec<u64>), i64, Vec<i64>) {
                let (bk, ds) = lsh_bucket_with_distances(v, table, nh);
                (lsh_bucket(v, table, nh), (bk, ds.iter().map(|d| d.to_bits()).collect()), lsh_bucket_int8(&qa, table, nh), lsh_multi_probe(v, table, nh, 6))
            };
            let res = guarded(|| {
                clear_lsh_cache();
                configure_lsh_cache_size(64);
                let cold = run_all(&a);
                let warm = run_all(&a);
                // evict with other keys under a 1-entry cache
                configure_lsh_cache_size(1);
                for t in 0..3 {
                    let _ = lsh_bucket(&b, table + 1 + t, nh.max(1));
                    let _ = lsh_bucket(&a[..a.len().min(1 + t as usize)].to_vec(), table, nh);
                }
                let evicted = run_all(&a);
                configure_lsh_cache_size(64);
                let regrown = run_all(&a);
                // concurrent use
                let th: Vec<_> = (0..4)
                    .map(|i| {
                        let (a2, b2) = (a.clone(), b.clone());
                        std::thread::spawn(move || {
                            let mut out = Vec::new();
                            for j in 0..6 {
                                if (i + j) % 3 == 0 {
                                    clear_lsh_cache();
                                }
                                if (i + j) % 4 == 1 {
                                    configure_lsh_cache_size(1 + (j % 3));
                                }
                                let _ = lsh_bucket(&b2, table + j as i64, nh.max(1));
                                out.push(lsh_bucket(&a2, table, nh));
                            }
                            out
                        })
                    })
                    .collect();
                let conc: Vec<Vec<i64>> = th.into_iter().map(|t| t.join().unwrap_or_default()).collect();
                configure_lsh_cache_size(64);
                (cold, warm, evicted, regrown, conc)
            });
            match res {
                Err(e) => ctx.violation(k, "C26:lsh-panicked", e, wit(json!({"table": table, "hyperplanes": nh}))),
                Ok((cold, warm, evicted, regrown, conc)) => {
                    for (state, got) in [("warm", &warm), ("after-eviction", &evicted), ("after-regrow", &regrown)] {
                        if *got != cold {
                            ctx.violation(k, &format!("C26:lsh-bucket-depends-on-cache-state:{state}"), format!("cold {:?} vs {state} {:?}", (cold.0, cold.2), (got.0, got.2)), wit(json!({"table": table, "hyperplanes": nh})));
                        }
                    }
                    if conc.iter().flatten().any(|x| *x != cold.0) {
                        ctx.violation(k, "C26:lsh-bucket-depends-on-cache-state:concurrent", format!("cold {} vs concurrent {:?}", cold.0, conc), wit(json!({"table": table, "hyperplanes": nh})));
                    }
                    if cold.0 != cold.1 .0 {
                        ctx.violation(k, "C26:lsh-bucket-with-distances-disagrees", format!("lsh_bucket {} vs lsh_bucket_with_distances {}", cold.0, cold.1 .0), wit(json!({"table": table, "hyperplanes": nh})));
                    }
                    let bits = nh.min(62) as u32;
                    if bits < 63 && (cold.0 < 0 || (bits < 62 && cold.0 >> bits != 0)) {
                        ctx.violation(k, "C26:lsh-bucket-out-of-range", format!("bucket {} with {nh} hyperplanes", cold.0), wit(json!({})));
                    }
                    // probe sequences
                    let bucket = cold.0;
                    let n = 1 + r.below(40);
                    let p = lsh_probes(bucket, nh, n);
                    let pr = lsh_probes_ranked(bucket, &cold.1 .1.iter().map(|b| f64::from_bits(*b)).collect::<Vec<_>>(), n);
                    for (name, seq, mono) in [("lsh_probes", &p, true), ("lsh_probes_ranked", &pr, false), ("lsh_multi_probe", &cold.3, false)] {
                        if seq.is_empty() {
                            continue;
                        }
                        if seq[0] != bucket {
                            ctx.violation(k, &format!("C26:probes-do-not-start-at-bucket:{name}"), format!("bucket {bucket}, sequence {seq:?}"), wit(json!({"hyperplanes": nh})));
                        }
                        if seq.iter().collect::<BTreeSet<_>>().len() != seq.len() {
                            ctx.violation(k, &format!("C26:probes-repeat:{name}"), format!("sequence {seq:?}"), wit(json!({"hyperplanes": nh})));
                        }
                        if mono && seq.windows(2).any(|w| hamming(w[0], bucket) > hamming(w[1], bucket)) {
                            ctx.violation(k, &format!("C26:probes-not-monotone-in-hamming-distance:{name}"), format!("bucket {bucket}, sequence {seq:?}"), wit(json!({"hyperplanes": nh})));
                        }
                        if seq.len() > n.max(6) {
                            ctx.violation(k, &format!("C26:more-probes-than-requested:{name}"), format!("{} probes", seq.len()), wit(json!({})));
                        }
                    }
                    ctx.count("lsh_cases");
                }
            }
        }
        // ---- temporal predicates
        let (s1, e1, s2, e2) = (r.range(-1000, 1000), r.range(-1000, 1000), r.range(-1000, 1000), r.range(-1000, 1000));
        let (s1, e1, s2, e2) = (s1.min(e1), s1.max(e1), s2.min(e2), s2.max(e2));
        if tt::intervals_overlap(s1, e1, s2, e2) != tt::intervals_overlap(s2, e2, s1, e1) {
            ctx.violation(k, "C26:intervals-overlap-not-symmetric", format!("[{s1},{e1}] [{s2},{e2}]"), json!({}));
        }
        if tt::interval_contains(s1, e1, s2, e2) && !tt::intervals_overlap(s1, e1, s2, e2) {
            ctx.violation(k, "C26:containment-without-overlap", format!("[{s1},{e1}] [{s2},{e2}]"), json!({}));
        }
        let (ts, dur) = (r.range(-1_000_000_000, 1_000_000_000), r.range(0, 1_000_000));
        if tt::time_sub(tt::time_add(ts, dur), dur) != ts {
            ctx.violation(k, "C26:time-add-sub-not-inverse", format!("ts={ts} dur={dur}"), json!({}));
        }
        let (now, hl) = (r.range(0, 1_000_000), r.range(1, 100_000));
        let (t_old, t_new) = (now - r.range(0, 500_000), now - r.range(0, 500_000));
        let (t_old, t_new) = (t_old.min(t_new), t_old.max(t_new));
        for (name, d_old, d_new) in [("time_decay", tt::time_decay(t_old, now, hl), tt::time_decay(t_new, now, hl)), ("time_decay_linear", tt::time_decay_linear(t_old, now, hl), tt::time_decay_linear(t_new, now, hl))] {
            if !(0.0..=1.0).contains(&d_old) || !(0.0..=1.0).contains(&d_new) {
                ctx.violation(k, &format!("C26:decay-out-of-range:{name}"), format!("{d_old} {d_new}"), json!({"now": now, "half_life": hl, "t_old": t_old, "t_new": t_new}));
            } else if d_old > d_new + 1e-12 {
                ctx.violation(k, &format!("C26:decay-not-monotone-in-age:{name}"), format!("older {d_old} > newer {d_new}"), json!({"now": now, "half_life": hl, "t_old": t_old, "t_new": t_new}));
            }
        }
        if k % 1500 == 0 {
            ctx.sample(json!({"a": a.iter().take(6).collect::<Vec<_>>(), "dim": dim, "euclidean": euclidean_distance(&a, &b), "cosine": cosine_distance(&a, &b)}));
        }
    }
}
