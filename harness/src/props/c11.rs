//! C11 — restart reproduces the live state (oracle: the live engine's own dump just before drop).

use crate::ctx::{Ctx, Meta};
use crate::store::*;
use inputlayer::StorageEngine;
use serde_json::json;
use std::collections::BTreeSet;

pub static META: Meta = Meta {
    id: "C11",
    level: "exploration",
    rule: "histories over the alphabet {ins a, ins b, del a, del b, ins [a,b], ins c, del [a,b], compact, save, restart}: exhaustive for every string up to length 4 (quick) / 5 (thorough) plus seeded random histories up to length 30 over 4 tuples, each under buffer_size in {1,2,10000} and shutdown = plain drop or save_all+drop; at every restart the dump of the reopened store must equal the dump of the live engine taken just before it was dropped; distinct = history+config; non-trivial = history contains at least one write",
    assumptions: &["clean shutdown = dropping the engine (no Drop hook exists), or save_all() followed by drop", "empty relations are normalised away on both sides (they are not kept across restarts)"],
    floor: 200,
    watchdog: (0, 0),
};

#[derive(Clone, Debug, PartialEq, Eq, Hash)]
pub enum Op {
    Ins(Vec<u8>),
    Del(Vec<u8>),
    Compact,
    Save,
    Restart,
}
impl Op {
    pub fn name(&self) -> String {
        let t = |v: &Vec<u8>| v.iter().map(|x| ((b'a' + x) as char).to_string()).collect::<Vec<_>>().join(",");
        match self {
            Op::Ins(v) => format!("ins[{}]", t(v)),
            Op::Del(v) => format!("del[{}]", t(v)),
            Op::Compact => "compact".into(),
            Op::Save => "save".into(),
            Op::Restart => "restart".into(),
        }
    }
}
pub fn tup(id: u8) -> inputlayer::Tuple {
    ituple(&[i64::from(id), i64::from(id) * 10])
}

const ALPHABET: usize = 10;
fn alpha(i: usize) -> Op {
    match i {
        0 => Op::Ins(vec![0]),
        1 => Op::Ins(vec![1]),
        2 => Op::Del(vec![0]),
        3 => Op::Del(vec![1]),
        4 => Op::Ins(vec![0, 1]),
        5 => Op::Ins(vec![2]),
        6 => Op::Del(vec![0, 1]),
        7 => Op::Compact,
        8 => Op::Save,
        _ => Op::Restart,
    }
}

#[derive(Clone, Debug)]
pub struct Case {
    pub ops: Vec<Op>,
    pub buffer: usize,
    pub save_on_shutdown: bool,
}

/// Some((step, live, recovered)) when a restart did not reproduce the live state; Err = harness/engine error
pub fn run_case(c: &Case) -> Result<Option<(usize, Facts, Facts)>, String> {
    let scratch = Scratch::new("c11");
    let o = StoreOpts { buffer_size: c.buffer, ..Default::default() };
    let mut e: StorageEngine = open(&scratch.path, &o)?;
    let mut ops = c.ops.clone();
    ops.push(Op::Restart);
    for (i, op) in ops.iter().enumerate() {
        match op {
            Op::Ins(v) => {
                e.insert_tuples_into("default", "r", v.iter().map(|x| tup(*x)).collect()).map_err(|x| format!("insert: {x}"))?;
            }
            Op::Del(v) => {
                e.delete_tuples_from("default", "r", v.iter().map(|x| tup(*x)).collect()).map_err(|x| format!("delete: {x}"))?;
            }
            Op::Compact => e.compact_all().map_err(|x| format!("compact: {x}"))?,
            Op::Save => e.save_all().map_err(|x| format!("save: {x}"))?,
            Op::Restart => {
                let live = dump_facts(&e, "default")?;
                if c.save_on_shutdown {
                    e.save_all().map_err(|x| format!("save: {x}"))?;
                }
                drop(e);
                e = open(&scratch.path, &o).map_err(|x| format!("REOPEN-FAILED: {x}"))?;
                let rec = dump_facts(&e, "default")?;
                if rec != live {
                    return Ok(Some((i, live, rec)));
                }
            }
        }
    }
    Ok(None)
}

/// structural class of a (minimised) failing history
fn classify(c: &Case) -> String {
    let mut present: BTreeSet<u8> = BTreeSet::new();
    let (mut dup, mut absent, mut maint) = (false, false, BTreeSet::new());
    for op in &c.ops {
        match op {
            Op::Ins(v) => {
                for x in v {
                    if !present.insert(*x) {
                        dup = true;
                    }
                }
            }
            Op::Del(v) => {
                for x in v {
                    if !present.remove(x) {
                        absent = true;
                    }
                }
            }
            Op::Compact => {
                maint.insert("compact");
            }
            Op::Save => {
                maint.insert("save");
            }
            Op::Restart => {
                maint.insert("restart");
            }
        }
    }
    let mut parts = Vec::new();
    if dup {
        parts.push("duplicate-insert");
    }
    if absent {
        parts.push("absent-delete");
    }
    if parts.is_empty() {
        parts.push("plain-writes");
        parts.extend(maint.iter());
    }
    parts.join("+")
}

fn check(ctx: &mut Ctx, k: u64, c: Case) {
    ctx.eval();
    if c.ops.iter().any(|o| matches!(o, Op::Ins(_) | Op::Del(_))) {
        ctx.nontrivial(crate::rng::hash_str(&format!("{c:?}")));
    }
    match run_case(&c) {
        Err(e) if e.starts_with("REOPEN-FAILED") => {
            ctx.violation(k, "C11:reopen-failed", e, json!({"history": c.ops.iter().map(Op::name).collect::<Vec<_>>(), "buffer_size": c.buffer, "save_on_shutdown": c.save_on_shutdown}));
        }
        Err(e) => ctx.inconclusive(format!("case {k}: {e}")),
        Ok(None) => {}
        Ok(Some(_)) => {
            // minimise: drop ops while the case still fails
            let mut small = c.clone();
            let mut i = 0;
            while i < small.ops.len() {
                let mut t = small.clone();
                t.ops.remove(i);
                if matches!(run_case(&t), Ok(Some(_))) {
                    small = t;
                } else {
                    i += 1;
                }
            }
            let (step, live, rec) = run_case(&small).ok().flatten().unwrap_or((0, Facts::new(), Facts::new()));
            let dir = if rec.get("r").map_or(0, Vec::len) > live.get("r").map_or(0, Vec::len) { "resurrected" } else if rec.get("r").map_or(0, Vec::len) < live.get("r").map_or(0, Vec::len) { "lost" } else { "different" };
            ctx.violation(
                k,
                &format!("C11:{}:{dir}", classify(&small)),
                format!("state after restart differs from the live state (step {step})"),
                json!({"minimised_history": small.ops.iter().map(Op::name).collect::<Vec<_>>(), "buffer_size": small.buffer, "save_on_shutdown": small.save_on_shutdown, "live": facts_json(&live), "recovered": facts_json(&rec), "original_history": c.ops.iter().map(Op::name).collect::<Vec<_>>()}),
            );
        }
    }
}

pub fn run(ctx: &mut Ctx) {
    // exhaustive part: all strings over the alphabet up to length L; config rotates with the index
    let maxlen = ctx.sz(4, 5) as u32;
    let mut total: u64 = 0;
    for l in 1..=maxlen {
        total += (ALPHABET as u64).pow(l);
    }
    ctx.note("exhaustive_history_length", json!(maxlen));
    ctx.note("exhaustive_histories", json!(total));
    for k in ctx.cases(total) {
        ctx.at_case(k);
        // decode k into (length, digits)
        let mut rest = k;
        let mut l = 1u32;
        while rest >= (ALPHABET as u64).pow(l) {
            rest -= (ALPHABET as u64).pow(l);
            l += 1;
        }
        let mut ops = Vec::new();
        for _ in 0..l {
            ops.push(alpha((rest % ALPHABET as u64) as usize));
            rest /= ALPHABET as u64;
        }
        let buffer = [1usize, 2, 10_000][(k % 3) as usize];
        let c = Case { ops, buffer, save_on_shutdown: (k / 3) % 2 == 1 };
        if k % 997 == 0 {
            ctx.sample(json!({"history": c.ops.iter().map(Op::name).collect::<Vec<_>>(), "buffer_size": c.buffer, "save_on_shutdown": c.save_on_shutdown}));
        }
        check(ctx, k, c);
    }
    // random part
    let n = ctx.sz(300, 6000);
    for k in ctx.cases(n) {
        let mut r = ctx.rng(k);
        let len = 5 + r.below(26);
        let ops: Vec<Op> = (0..len)
            .map(|_| match r.below(12) {
                0..=4 => Op::Ins((0..(1 + r.below(2))).map(|_| r.below(4) as u8).collect::<BTreeSet<_>>().into_iter().collect()),
                5..=8 => Op::Del((0..(1 + r.below(2))).map(|_| r.below(4) as u8).collect::<BTreeSet<_>>().into_iter().collect()),
                9 => Op::Compact,
                10 => Op::Save,
                _ => Op::Restart,
            })
            .collect();
        let c = Case { ops, buffer: *r.pick(&[1usize, 2, 3, 10_000]), save_on_shutdown: r.chance(1, 2) };
        check(ctx, total + k, c);
    }
}
