//! C20 — reads observe a committed prefix (never a partially applied batch) and a client observes
//! its own acknowledged writes. Real threads over one StorageEngine, interleaved by the scheduler.

use crate::ctx::{Ctx, Meta};
use crate::sched::{alternations, trace_hash, Sched, Strategy};
use crate::store::*;
use inputlayer::{parse_rule_definition, StorageEngine};
use serde_json::json;
use std::collections::{BTreeMap, BTreeSet};
use std::sync::atomic::{AtomicUsize, Ordering};
use std::sync::Arc;
use std::time::Duration;

pub static META: Meta = Meta {
    id: "C20",
    level: "exploration",
    rule: "1-2 writers, each the only writer of its relation, issue 3-6 operations (insert a batch of 3-5 tuples tagged with the batch id, delete a whole earlier batch) and after each acknowledged operation read their own relation; 2 readers query the relations (directly and through a persistent rule over them) 4-6 times each; the scheduler interleaves all threads at the hook points of insert/delete/snapshot publication; every answer must consist of whole batches only, must equal the writer's state after j operations for some j with acknowledged-at-call <= j <= begun-at-return, and a writer's own read must equal its own state exactly; every 8th history runs without the scheduler (free-running threads, batches of up to 4500 tuples, readers polling until the writers finish) to reach races inside regions that have no hook point; distinct = schedule trace (free-running: the observed windows); non-trivial = >= 2 cross-thread alternations and >= 1 read overlapping a write (free-running: >= 3 overlapping reads)",
    assumptions: &["begun/acknowledged counters are read by the readers themselves right before the call and right after the return (boundary stamps)", "seeded random schedules over the hook points"],
    floor: 30,
    watchdog: (40_000, 120_000),
};

#[derive(Clone, Debug)]
enum Op {
    Ins(i64, usize),
    Del(i64, usize),
}

fn states(ops: &[Op]) -> Vec<BTreeMap<i64, usize>> {
    let mut out = vec![BTreeMap::new()];
    let mut cur: BTreeMap<i64, usize> = BTreeMap::new();
    for op in ops {
        match op {
            Op::Ins(b, n) => {
                cur.insert(*b, *n);
            }
            Op::Del(b, _) => {
                cur.remove(b);
            }
        }
        out.push(cur.clone());
    }
    out
}

fn query(e: &StorageEngine, rel: &str, via_rule: bool) -> Result<Vec<(i64, i64)>, String> {
    let q = if via_rule { format!("__q__(B, I) <- v_{rel}(B, I)") } else { format!("__q__(B, I) <- {rel}(B, I)") };
    e.execute_query_with_rules_tuples_on("default", &q).map(|ts| ts.iter().map(|t| (t.values()[0].as_i64().unwrap_or(-1), t.values()[1].as_i64().unwrap_or(-1))).collect()).map_err(|x| format!("{x}"))
}

/// Some(defect) if `rows` is not the state after j ops for some j in [lo, hi]
fn judge(rows: &[(i64, i64)], st: &[BTreeMap<i64, usize>], lo: usize, hi: usize) -> Option<String> {
    let mut by: BTreeMap<i64, BTreeSet<i64>> = BTreeMap::new();
    for (b, i) in rows {
        if !by.entry(*b).or_default().insert(*i) {
            return Some(format!("duplicate-tuple: batch {b} index {i} twice"));
        }
    }
    let all_sizes: BTreeMap<i64, usize> = st.iter().flat_map(|m| m.iter().map(|(k, v)| (*k, *v))).collect();
    for (b, idx) in &by {
        let n = all_sizes.get(b).copied().unwrap_or(0);
        if idx.len() != n {
            return Some(format!("partial-batch: batch {b} shows {} of {n} tuples", idx.len()));
        }
    }
    let seen: BTreeSet<i64> = by.keys().copied().collect();
    let ok = (lo..=hi.min(st.len() - 1)).any(|j| st[j].keys().copied().collect::<BTreeSet<i64>>() == seen);
    if ok {
        None
    } else if (0..st.len()).any(|j| st[j].keys().copied().collect::<BTreeSet<i64>>() == seen) {
        let j = (0..st.len()).find(|j| st[*j].keys().copied().collect::<BTreeSet<i64>>() == seen).unwrap_or(0);
        Some(if j < lo { format!("stale-read: state after {j} operations, but {lo} were acknowledged before the call") } else { format!("future-read: state after {j} operations, but only {hi} had begun at the return") })
    } else {
        Some(format!("not-a-prefix: visible batches {seen:?} are no state of the writer's history"))
    }
}

pub fn run(ctx: &mut Ctx) {
    let total = ctx.sz(120, 2400);
    for k in ctx.cases(total) {
        let mut r = ctx.rng(k);
        let scratch = Scratch::new("c20");
        let o = StoreOpts { buffer_size: *r.pick(&[2usize, 10_000]), ..Default::default() };
        let Ok(e) = open(&scratch.path, &o) else { continue };
        // every 8th history runs free (no scheduler: threads race inside the engine's own critical sections,
        // where there are no hook points) with large batches and readers polling until the writers are done
        let free = k % 8 == 7;
        let nw = 1 + r.below(2);
        let rels: Vec<String> = (0..nw).map(|w| format!("w{w}")).collect();
        // seed each relation so that it exists, and register the rule the readers use
        for rel in &rels {
            let _ = e.insert_tuples_into("default", rel, vec![ituple(&[0, 0])]);
            let _ = e.delete_tuples_from("default", rel, vec![ituple(&[0, 0])]);
            if let Ok(def) = parse_rule_definition(&format!("v_{rel}(B, I) <- {rel}(B, I)")) {
                let _ = e.register_rule_in("default", &def);
            }
        }
        let e = Arc::new(e);
        let mut plans: Vec<Vec<Op>> = Vec::new();
        for w in 0..nw {
            let mut ops = Vec::new();
            let mut live: Vec<(i64, usize)> = Vec::new();
            for i in 0..(3 + r.below(4)) {
                if !live.is_empty() && r.chance(1, 3) {
                    let (b, n) = live.remove(r.below(live.len()));
                    ops.push(Op::Del(b, n));
                } else {
                    let b = (w as i64 + 1) * 100 + i as i64;
                    let n = if free { *r.pick(&[3usize, 40, 700, 1100, 2100, 3300, 4500]) } else { 3 + r.below(3) };
                    live.push((b, n));
                    ops.push(Op::Ins(b, n));
                }
            }
            plans.push(ops);
        }
        let begun: Arc<Vec<AtomicUsize>> = Arc::new((0..nw).map(|_| AtomicUsize::new(0)).collect());
        let acked: Arc<Vec<AtomicUsize>> = Arc::new((0..nw).map(|_| AtomicUsize::new(0)).collect());
        // observations: (reader/writer label, relation index, lo, hi, rows or error, own)
        type Obs = (String, usize, usize, usize, Result<Vec<(i64, i64)>, String>, bool);
        let obs: Arc<parking_lot::Mutex<Vec<Obs>>> = Arc::new(parking_lot::Mutex::new(Vec::new()));
        let mut bodies: Vec<Box<dyn FnOnce() + Send>> = Vec::new();
        let writers_done = Arc::new(AtomicUsize::new(0));
        for w in 0..nw {
            let (e, ops, rel, begun, acked, obs) = (Arc::clone(&e), plans[w].clone(), rels[w].clone(), Arc::clone(&begun), Arc::clone(&acked), Arc::clone(&obs));
            let done = Arc::clone(&writers_done);
            bodies.push(Box::new(move || {
                struct Done(Arc<AtomicUsize>);
                impl Drop for Done {
                    fn drop(&mut self) {
                        self.0.fetch_add(1, Ordering::SeqCst);
                    }
                }
                let _done = Done(done);
                for op in ops {
                    begun[w].fetch_add(1, Ordering::SeqCst);
                    let ok = match &op {
                        Op::Ins(b, n) => e.insert_tuples_into("default", &rel, (0..*n as i64).map(|i| ituple(&[*b, i])).collect()).is_ok(),
                        Op::Del(b, n) => e.delete_tuples_from("default", &rel, (0..*n as i64).map(|i| ituple(&[*b, i])).collect()).is_ok(),
                    };
                    if !ok {
                        obs.lock().push((format!("writer{w}"), w, 0, 0, Err("write failed".into()), true));
                        return;
                    }
                    let j = acked[w].fetch_add(1, Ordering::SeqCst) + 1;
                    // read-your-writes
                    let rows = query(&e, &rel, false);
                    obs.lock().push((format!("writer{w}"), w, j, j, rows, true));
                }
            }));
        }
        for rd in 0..2usize {
            let (e, rels, begun, acked, obs) = (Arc::clone(&e), rels.clone(), Arc::clone(&begun), Arc::clone(&acked), Arc::clone(&obs));
            let n = if free { 600 } else { 4 + r.below(3) };
            let via_rule = rd == 1;
            let done = Arc::clone(&writers_done);
            bodies.push(Box::new(move || {
                for i in 0..n {
                    if free && i >= 4 && done.load(Ordering::SeqCst) >= rels.len() {
                        break;
                    }
                    let w = i % rels.len();
                    crate::sched_point();
                    let lo = acked[w].load(Ordering::SeqCst);
                    let rows = query(&e, &rels[w], via_rule);
                    let hi = begun[w].load(Ordering::SeqCst);
                    obs.lock().push((format!("reader{rd}{}", if via_rule { "(rule)" } else { "" }), w, lo, hi, rows, false));
                }
            }));
        }
        let out = if free {
            let hs: Vec<_> = bodies.into_iter().map(std::thread::spawn).collect();
            for h in hs {
                let _ = h.join();
            }
            ctx.count("free_running_histories");
            crate::sched::Outcome::default()
        } else {
            let sched = Sched::new();
            sched.run(bodies, Strategy::Random(ctx.seed ^ k.wrapping_mul(0x6C07_8965)), Duration::from_secs(25), |_, _| None)
        };
        ctx.eval();
        if out.timed_out {
            ctx.inconclusive(format!("case {k}: schedule did not finish (inconclusive)"));
            continue;
        }
        let all = obs.lock().clone();
        let overlapping = all.iter().filter(|o| !o.5 && o.3 > o.2).count();
        if free {
            ctx.count_n("free_reads_overlapping_a_write", overlapping as u64);
            if overlapping >= 3 {
                ctx.nontrivial(crate::rng::hash_str(&format!("{k}:{:?}", all.iter().map(|o| (o.1, o.2, o.3)).collect::<Vec<_>>())));
            }
        } else if alternations(&out.trace) >= 2 && overlapping >= 1 {
            ctx.nontrivial(trace_hash(&out.trace));
        }
        ctx.count_n("reads", all.len() as u64);
        ctx.count_n("reads_overlapping_a_write", overlapping as u64);
        let sts: Vec<Vec<BTreeMap<i64, usize>>> = plans.iter().map(|p| states(p)).collect();
        let mut bad = false;
        for (who, w, lo, hi, rows, own) in &all {
            let wit = |extra: serde_json::Value| json!({"plans": plans.iter().map(|p| p.iter().map(|o| format!("{o:?}")).collect::<Vec<_>>()).collect::<Vec<_>>(), "schedule": out.trace.iter().map(|(t, p)| format!("{t}:{p}")).collect::<Vec<_>>(), "observer": who, "relation": rels[*w], "acknowledged_at_call": lo, "begun_at_return": hi, "detail": extra});
            match rows {
                Err(x) => {
                    ctx.violation(k, &format!("C20:{}-failed", if *own { "own-read-or-write" } else { "read" }), format!("{who}: {x}"), wit(json!({})));
                    bad = true;
                    break;
                }
                Ok(rows) => {
                    if let Some(d) = judge(rows, &sts[*w], *lo, *hi) {
                        let class = d.split(':').next().unwrap_or("").to_string();
                        let kind = if *own { "own-read" } else if who.contains("rule") { "read-through-rule" } else { "read" };
                        let kind = if free { format!("{kind}:free-running") } else { kind.to_string() };
                        ctx.violation(k, &format!("C20:{class}:{kind}"), format!("{who} on {}: {d}", rels[*w]), wit(if rows.len() > 200 { json!({"row_count": rows.len()}) } else { json!({"rows": rows}) }));
                        bad = true;
                        break;
                    }
                }
            }
        }
        if !bad && k % 20 == 0 {
            ctx.sample(json!({"plans": plans.iter().map(|p| p.iter().map(|o| format!("{o:?}")).collect::<Vec<_>>()).collect::<Vec<_>>(), "reads": all.len(), "schedule_head": out.trace.iter().take(16).map(|(t, p)| format!("{t}:{p}")).collect::<Vec<_>>()}));
        }
    }
}
