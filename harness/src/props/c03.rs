//! C03 — worker count never changes answers (oracle: the single-worker run).

use crate::ctx::{Ctx, Meta};
use crate::eng::*;
use crate::gen::*;
use crate::refdl;
use crate::shrink::{features, shrink};
use serde_json::json;

pub static META: Meta = Meta {
    id: "C03",
    level: "exploration",
    rule: "generated programs in three mixes (join-free rules that take the partitioned execution path: single-atom bodies, filters, projections creating duplicates, computed columns, aggregates; small programs whose multi-clause heads mix join-free and joining/negating clauses; the general generator) x EDB, executed with num_workers in {1,2,3,4,8}; every multi-worker outcome is compared with the single-worker outcome; non-trivial = single-worker answer non-empty; distinct = program text + EDB",
    assumptions: &["set_num_workers is the user-visible knob (Config.storage.performance.num_threads feeds the same field)"],
    floor: 20,
    watchdog: (0, 0),
};

const WORKERS: [usize; 4] = [2, 3, 4, 8];

fn outcome(p: &GenProgram, w: usize) -> Result<Vec<refdl::Tup>, String> {
    run_engine(p, &RunOpts { workers: Some(w), ..Default::default() }).map(|a| {
        let mut rows = a.rows;
        rows.sort();
        rows
    })
}

fn differing(p: &GenProgram) -> Vec<usize> {
    let base = outcome(p, 1);
    WORKERS.iter().copied().filter(|w| {
        let o = outcome(p, *w);
        match (&base, &o) {
            (Ok(a), Ok(b)) => a != b,
            (Err(_), Err(_)) => false,
            _ => true,
        }
    }).collect()
}

pub fn run(ctx: &mut Ctx) {
    let total = ctx.sz(2400, 48_000);
    for k in ctx.cases(total) {
        let mut r = ctx.rng(k);
        // three mixes: join-free rules (the partitioned path), small programs with multi-clause heads that
        // mix join-free and joining clauses, and the general generator
        let opts = match k % 10 {
            0..=3 => GenOpts { max_body: 1, agg: 45, arith: 30, neg: 0, rec: 10, mutual: 3, max_edb: 12, union: 40, ..GenOpts::default() },
            4..=7 => GenOpts { max_body: 2, max_idb: 2, agg: 25, arith: 20, neg: 20, rec: 5, mutual: 0, max_edb: 12, union: 70, cmp: 15, ..GenOpts::default() },
            _ => GenOpts { agg: 30, max_edb: 12, union: 50, ..GenOpts::default() },
        };
        let p = gen_program(&mut r, &opts);
        if refdl::evaluate(&p.clauses, &p.edb, false).is_err() {
            continue;
        }
        ctx.evals(5);
        for t in &p.tags {
            ctx.count(&format!("tag:{t}"));
        }
        let base = outcome(&p, 1);
        if matches!(&base, Ok(a) if !a.is_empty()) {
            ctx.nontrivial_str(&format!("{}|{:?}", p.text(), p.edb));
            ctx.sample(json!({"case": k, "input": p.to_json(), "workers": [1,2,3,4,8]}));
        }
        let bad = differing(&p);
        if !bad.is_empty() {
            let small = shrink(&p, |c| !differing(c).is_empty(), 200);
            let bad2 = differing(&small);
            let f = features(&small);
            let class = if f.contains("aggregate") { "aggregate".to_string() } else { f.iter().copied().collect::<Vec<_>>().join("+") };
            let show = |o: Result<Vec<refdl::Tup>, String>| match o {
                Ok(r) => rows_json(&r),
                Err(e) => json!(format!("ERR {e}")),
            };
            ctx.violation(
                k,
                &format!("C03:{class}"),
                format!("answer with {} workers differs from the single-worker answer", bad2[0]),
                json!({"minimised": small.to_json(), "workers_1": show(outcome(&small, 1)), "workers_n": bad2[0], "answer_n": show(outcome(&small, bad2[0])), "differing_worker_counts": bad2}),
            );
        }
    }
}
