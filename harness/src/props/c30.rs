//! C30 — a program with a syntax error has no effect; an all-valid program applies in program order.

use crate::ctx::{Ctx, Meta};
use crate::hnd::{messages, H};
use crate::store::*;
use inputlayer::parse_statement;
use serde_json::json;
use std::collections::{BTreeMap, BTreeSet};

pub static META: Meta = Meta {
    id: "C30",
    level: "exploration",
    rule: "valid programs of 2-8 single-line statements (+fact, +bulk, -fact, conditional deletes, persistent rule registration, .rule drop, queries) over r/2, s/1 on a pre-populated store; (a) for every position and each of 8 error kinds (unbalanced parenthesis, bad term, unknown meta command, stray token, empty rule body, lone sign, broken bulk list, bad comparison) one line is replaced by / followed by a line that parse_statement rejects: the request must fail and the full dump (facts, rules, schemas of every KG) must be unchanged; (b) the valid program itself must leave exactly the set-model state reached by applying its statements in order, with per-statement reports equal to the model's when the program has no query; distinct = program text; non-trivial = program changes state",
    assumptions: &["'fails to parse' is decided by the crate's own parse_statement on the injected line (the parser's leniency is not C30's concern)", "run-time (non-syntax) failures are outside the property and only counted"],
    floor: 50,
    watchdog: (0, 0),
};

type Rel = BTreeSet<Vec<i64>>;
#[derive(Clone, Default, PartialEq, Debug)]
struct Model {
    rels: BTreeMap<&'static str, Rel>,
    rules: BTreeSet<String>,
}

fn lit(t: &[i64]) -> String {
    format!("({})", t.iter().map(|x| x.to_string()).collect::<Vec<_>>().join(", "))
}

/// generate one valid statement, apply it to the model, return (text, expected report fragment)
fn gen_stmt(r: &mut crate::rng::Rng, m: &mut Model) -> (String, Option<String>) {
    let rel: &'static str = if r.chance(2, 3) { "r" } else { "s" };
    let ar = if rel == "r" { 2 } else { 1 };
    let mk = |r: &mut crate::rng::Rng| -> Vec<i64> { (0..ar).map(|_| r.range(0, 3)).collect() };
    match r.below(10) {
        0 | 1 | 2 => {
            let t = mk(r);
            let new = m.rels.get_mut(rel).unwrap().insert(t.clone());
            (format!("+{rel}{}", lit(&t)), Some(format!("Inserted {} fact(s) into '{rel}'", i32::from(new))))
        }
        3 | 4 => {
            let b: Vec<Vec<i64>> = (0..(2 + r.below(3))).map(|_| mk(r)).collect();
            let mut new = 0;
            for t in &b {
                if m.rels.get_mut(rel).unwrap().insert(t.clone()) {
                    new += 1;
                }
            }
            (format!("+{rel}[{}]", b.iter().map(|t| lit(t)).collect::<Vec<_>>().join(", ")), Some(format!("Inserted {new} fact(s) into '{rel}'")))
        }
        5 | 6 => {
            let t = mk(r);
            let had = m.rels.get_mut(rel).unwrap().remove(&t);
            (format!("-{rel}{}", lit(&t)), Some(format!("Deleted {} facts from '{rel}'", i32::from(had))))
        }
        7 => {
            let c = r.range(0, 3);
            let doomed: Rel = m.rels["r"].iter().filter(|t| t[0] > c).cloned().collect();
            for t in &doomed {
                m.rels.get_mut("r").unwrap().remove(t);
            }
            (format!("-r(X, Y) <- r(X, Y), X > {c}"), Some(format!("Conditional delete: {} fact(s) deleted from 'r'", doomed.len())))
        }
        8 => {
            let name = *r.pick(&["p", "p2"]);
            m.rules.insert(name.to_string());
            (format!("+{name}(X) <- r(X, _)"), None)
        }
        _ => {
            if let Some(name) = m.rules.iter().next().cloned() {
                m.rules.remove(&name);
                (format!(".rule drop {name}"), None)
            } else {
                ("?r(X, Y)".to_string(), None)
            }
        }
    }
}

const ERRORS: [&str; 8] = ["+r(3, 4", "+r(3, $)", ".bogus cmd", "+r(1, 2) extra", "+p(X) <- ", "+", "+r[(1, 2), (3", "-r(X, Y) <- r(X, Y), X >> 2"];

fn observe(h: &H) -> Result<(Dump, Model), String> {
    let d = dump_all(&h.h.get_storage())?;
    let mut m = Model::default();
    for rel in ["r", "s"] {
        let set: Rel = d.get("default").and_then(|k| k.facts.get(rel)).map(|v| v.iter().map(|t| t.values().iter().map(|x| x.as_i64().unwrap_or(i64::MIN)).collect()).collect()).unwrap_or_default();
        m.rels.insert(rel, set);
    }
    m.rules = d.get("default").map(|k| k.rules.keys().cloned().collect()).unwrap_or_default();
    Ok((d, m))
}

pub fn run(ctx: &mut Ctx) {
    let total = ctx.sz(60, 1200);
    for k in ctx.cases(total) {
        let mut r = ctx.rng(k);
        let scratch = Scratch::new("c30");
        let h = match H::open(&scratch.path, &StoreOpts::default()) {
            Ok(h) => h,
            Err(e) => {
                ctx.inconclusive(format!("case {k}: {e}"));
                continue;
            }
        };
        // pre-populate so that deletes and rules have something to act on
        let _ = h.exec("default", "+r[(0, 1), (1, 2), (2, 3), (3, 0)]\n+s[(0), (2)]\n+base(X) <- s(X)");
        let Ok((_, mut model)) = observe(&h) else { continue };
        for round in 0..3 {
            let n = 2 + r.below(7);
            let mut m2 = model.clone();
            let stmts: Vec<(String, Option<String>)> = (0..n).map(|_| gen_stmt(&mut r, &mut m2)).collect();
            let lines: Vec<String> = stmts.iter().map(|s| s.0.clone()).collect();
            if lines.iter().any(|l| parse_statement(l).is_err()) {
                ctx.count("generator_produced_unparsable_statement");
                continue;
            }
            // (a) syntax error injected at every position, every kind
            let Ok((before, _)) = observe(&h) else { continue };
            for pos in 0..=lines.len() {
                let e = ERRORS[(r.below(ERRORS.len()) + pos) % ERRORS.len()];
                if parse_statement(e).is_ok() {
                    ctx.count("error_kind_accepted_by_parser");
                    continue;
                }
                let mut prog = lines.clone();
                if pos < lines.len() && r.chance(1, 2) {
                    prog[pos] = e.to_string(); // replace
                } else {
                    prog.insert(pos, e.to_string()); // insert
                }
                let text = prog.join(if r.chance(1, 8) { "\r\n" } else { "\n" });
                ctx.eval();
                ctx.nontrivial(crate::rng::hash_str(&text));
                let res = h.exec("default", &text);
                let after = observe(&h).map(|x| x.0).unwrap_or_default();
                let kind = e.split_whitespace().next().unwrap_or("").chars().take(6).collect::<String>();
                if after != before {
                    let where_ = if pos == 0 { "first" } else if pos >= lines.len() { "last" } else { "middle" };
                    ctx.violation(k, &format!("C30:syntax-error-program-changed-state:error-at-{where_}"), format!("program with unparsable line `{e}` at position {pos} changed persistent state (result {:?})", res.as_ref().map(|_| "Ok").map_err(|x| x.chars().take(80).collect::<String>())), json!({"program": prog, "error_line": e, "kind": kind, "before": dump_json(&before), "after": dump_json(&after)}));
                    // restore the model to what is actually stored so that later rounds stay meaningful
                    if let Ok((_, actual)) = observe(&h) {
                        model = actual;
                    }
                    break;
                } else if res.is_ok() {
                    ctx.violation(k, "C30:syntax-error-program-accepted", format!("program with unparsable line `{e}` at position {pos} returned Ok"), json!({"program": prog, "error_line": e}));
                }
            }
            let Ok((_, now)) = observe(&h) else { continue };
            if now != model {
                continue; // state was disturbed by a violation above; skip (b) for this round
            }
            // (b) the valid program applies in order
            let text = lines.join("\n");
            ctx.eval();
            match h.exec("default", &text) {
                Err(e) => {
                    ctx.count("valid_program_failed_at_runtime");
                    ctx.trace(|| format!("runtime failure: {e} :: {text}"));
                    if let Ok((_, actual)) = observe(&h) {
                        model = actual;
                    }
                }
                Ok(res) => {
                    let Ok((_, got)) = observe(&h) else { continue };
                    if got != m2 {
                        ctx.violation(k, "C30:valid-program:final-state-differs-from-in-order-model", "state after an all-valid program is not the result of applying its statements in order".into(), json!({"program": lines, "got": format!("{got:?}"), "model": format!("{m2:?}")}));
                        model = got;
                    } else {
                        let has_query = lines.iter().any(|l| l.starts_with('?'));
                        if !has_query {
                            let msgs = messages(&res);
                            let want: Vec<&String> = stmts.iter().filter_map(|s| s.1.as_ref()).collect();
                            let mut it = msgs.iter();
                            for w in want {
                                if !it.any(|m| m.contains(w.as_str())) {
                                    ctx.violation(k, "C30:valid-program:report-differs", format!("expected report `{w}` (in order) not found"), json!({"program": lines, "messages": msgs}));
                                    break;
                                }
                            }
                        }
                        if m2 != model {
                            ctx.count("state_changing_valid_programs");
                        }
                        model = m2;
                        if round == 0 && k % 10 == 0 {
                            ctx.sample(json!({"valid_program": lines, "error_kinds": ERRORS}));
                        }
                    }
                }
            }
        }
        h.h.shutdown();
    }
}
