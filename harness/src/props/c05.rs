//! C05 — IR rewrite passes preserve plan semantics.
//! The crate's own executor on the *unrewritten* plan is the denotation; every pass (and the pipeline
//! in the order `optimize_ir` applies them) must leave the executed result unchanged.

use crate::ctx::{guarded, Ctx, Meta};
use crate::eng::*;
use crate::gen::*;
use crate::refdl;
use crate::shrink::{features, shrink};
use inputlayer::{BooleanSpecializer, CodeGenerator, IQLEngine, IRNode, JoinPlanner, Optimizer, Predicate, SemiringType};
use serde_json::json;
use std::collections::BTreeSet;

pub static META: Meta = Meta {
    id: "C05",
    level: "exploration",
    rule: "two plan sources: (1) 3 of 4 cases: plans built by the real IRBuilder (parse + build_ir, no optimisation) from generated programs; (2) 1 of 4: typed random plans over Scan/Map/Filter/Join/Antijoin/Distinct/Union with every comparison predicate form, And/Or/True/False, multi-column and cartesian joins, statically empty inputs (False filters, empty unions), depth <= 3, run on 3 random databases; source (1) details: generated programs (joins of 2-4 atoms incl. multi-key and cartesian joins, constants, repeated variables, comparisons, computed columns, negation, multi-clause heads, aggregates, head constants); every non-recursive rule's plan p is executed by CodeGenerator on a database holding the EDB and the reference model of every other relation, and compared with the execution of Optimizer::optimize(p), JoinPlanner::plan_joins(p), BooleanSpecializer::specialize(p) (run with the semiring it selects) and the pipeline join-planning -> specialisation -> optimize; non-trivial = unrewritten result non-empty; distinct = plan (Debug text) + database",
    assumptions: &["denotation = the crate's executor on the unrewritten plan (C01 ties the executor to the reference semantics); plans the unrewritten executor rejects are discarded", "recursive rules are skipped: the engine never runs rewritten plans for them"],
    floor: 50,
    watchdog: (0, 0),
};

type Rows = BTreeSet<refdl::Tup>;

fn exec(ir: &IRNode, db: &refdl::Db, semiring: Option<SemiringType>) -> Result<Rows, String> {
    guarded(|| {
        let mut cg = CodeGenerator::new();
        if let Some(s) = semiring {
            cg.set_semiring_type(s);
        }
        for (name, rel) in db {
            cg.add_input(name.clone(), rel.iter().map(tup_to_tuple).collect());
        }
        cg.execute(ir).map(|v| v.iter().map(tuple_to_tup).collect::<Rows>())
    })
    .and_then(|r| r)
}

/// (pass name, outcome) for the first pass that changes the result of plan `ir` on `db`
fn broken_pass(ir: &IRNode, db: &refdl::Db) -> Option<(&'static str, Result<Rows, String>, Rows)> {
    let base = exec(ir, db, None).ok()?;
    let passes: Vec<(&'static str, Box<dyn Fn(IRNode) -> (IRNode, Option<SemiringType>)>)> = vec![
        ("optimize", Box::new(|p| (Optimizer::new().optimize(p), None))),
        ("plan_joins", Box::new(|p| (JoinPlanner::new().plan_joins(p), None))),
        ("specialize", Box::new(|p| {
            let (q, a) = BooleanSpecializer::new().specialize(p);
            (q, Some(a.semiring))
        })),
        ("pipeline", Box::new(|p| {
            let p = JoinPlanner::new().plan_joins(p);
            let (p, a) = BooleanSpecializer::new().specialize(p);
            (Optimizer::new().optimize(p), Some(a.semiring))
        })),
    ];
    for (name, f) in passes {
        let rewritten = guarded(|| f(ir.clone()));
        match rewritten {
            Err(e) => return Some((name, Err(format!("pass panicked: {e}")), base)),
            Ok((q, sem)) => match exec(&q, db, sem) {
                Ok(r) if r == base => {}
                other => return Some((name, other, base)),
            },
        }
    }
    None
}

/// unrewritten plans of all non-recursive heads of `p`, with the database they run on
fn plans(p: &GenProgram) -> Option<(Vec<(String, IRNode)>, refdl::Db)> {
    let model = refdl::evaluate(&p.clauses, &p.edb, false).ok()?;
    let text = p.text();
    let nodes = guarded(|| {
        let mut e = IQLEngine::with_config(config_from_bits(0));
        load_edb(&mut e, &p.edb);
        e.parse(&text).map_err(|x| x.to_string())?;
        e.build_ir(false).map_err(|x| x.to_string())?;
        Ok::<_, String>(e.ir_nodes().to_vec())
    })
    .ok()?
    .ok()?;
    // heads in order of first appearance = node order
    let mut heads: Vec<String> = Vec::new();
    for c in &p.clauses {
        if !heads.contains(&c.head) {
            heads.push(c.head.clone());
        }
    }
    if heads.len() != nodes.len() {
        return None;
    }
    let recursive: BTreeSet<&String> = heads.iter().filter(|h| CodeGenerator::references_relation(&nodes[heads.iter().position(|x| x == *h).unwrap()], h)).collect();
    // mutually recursive heads are skipped as well: keep only heads whose body relations are all "lower"
    let out: Vec<(String, IRNode)> = heads.iter().cloned().zip(nodes.iter().cloned()).filter(|(h, _)| !recursive.contains(h) && !p.tags.contains("rec_mutual")).collect();
    let mut db = model.db.clone();
    for (k, v) in &p.edb {
        db.entry(k.clone()).or_insert_with(|| v.clone());
    }
    Some((out, db))
}

fn first_broken(p: &GenProgram) -> Option<(String, &'static str, Result<Rows, String>, Rows, String)> {
    let (ps, db) = plans(p)?;
    for (h, ir) in ps {
        if let Some((pass, got, base)) = broken_pass(&ir, &db) {
            return Some((h, pass, got, base, format!("{ir:?}")));
        }
    }
    None
}

/// Typed random plan over the EDB relations a/2, b/2, c/1, d/3: Scan, Map (projection with
/// duplication/reordering), Filter (column-constant and column-column comparisons, And/Or, True/False),
/// Join / Antijoin with 0-2 key pairs (0 = cartesian), Distinct, Union (incl. the empty union).
/// Returns the plan and its arity. Output schemas follow the executor's convention
/// (all left columns ++ non-key right columns).
fn gen_plan(r: &mut crate::rng::Rng, depth: u32, want: Option<usize>, ctr: &mut usize) -> (IRNode, usize) {
    fn fresh(ctr: &mut usize, n: usize) -> Vec<String> {
        (0..n)
            .map(|_| {
                *ctr += 1;
                format!("c{}", *ctr)
            })
            .collect()
    }
    if depth == 0 {
        let rels: Vec<(&str, usize)> = EDB_RELS.iter().copied().filter(|(_, a)| want.map_or(true, |w| *a == w)).collect();
        let (rel, ar) = *r.pick(&rels);
        return (IRNode::Scan { relation: rel.to_string(), schema: fresh(ctr, ar) }, ar);
    }
    let pred = |r: &mut crate::rng::Rng, ar: usize, d: u32| -> Predicate {
        fn go(r: &mut crate::rng::Rng, ar: usize, d: u32) -> Predicate {
            let c = r.below(ar);
            let k = r.range(0, 4);
            match r.below(if d == 0 { 11 } else { 14 }) {
                0 => Predicate::ColumnEqConst(c, k),
                1 => Predicate::ColumnNeConst(c, k),
                2 => Predicate::ColumnGtConst(c, k),
                3 => Predicate::ColumnLtConst(c, k),
                4 => Predicate::ColumnGeConst(c, k),
                5 => Predicate::ColumnLeConst(c, k),
                6 => Predicate::ColumnsEq(c, r.below(ar)),
                7 => Predicate::ColumnsLt(c, r.below(ar)),
                8 => Predicate::ColumnsGe(c, r.below(ar)),
                9 => Predicate::True,
                10 => Predicate::False,
                11 | 12 => Predicate::And(Box::new(go(r, ar, d - 1)), Box::new(go(r, ar, d - 1))),
                _ => Predicate::Or(Box::new(go(r, ar, d - 1)), Box::new(go(r, ar, d - 1))),
            }
        }
        go(r, ar, d)
    };
    match r.below(12) {
        0 | 1 => {
            // Map
            let (input, ar) = gen_plan(r, depth - 1, None, ctr);
            let out = want.unwrap_or(1 + r.below(3));
            let projection: Vec<usize> = (0..out).map(|_| r.below(ar)).collect();
            (IRNode::Map { input: Box::new(input), projection, output_schema: fresh(ctr, out) }, out)
        }
        2 | 3 | 4 => {
            let (input, ar) = gen_plan(r, depth - 1, want, ctr);
            (IRNode::Filter { input: Box::new(input), predicate: pred(r, ar, 2) }, ar)
        }
        5 | 6 | 7 if want.is_none() => {
            // Join
            let (left, la) = gen_plan(r, depth - 1, None, ctr);
            let (right, ra) = gen_plan(r, depth - 1, None, ctr);
            let nkeys = r.below(3).min(la).min(ra);
            let mut lk: Vec<usize> = (0..la).collect();
            let mut rk: Vec<usize> = (0..ra).collect();
            r.shuffle(&mut lk);
            r.shuffle(&mut rk);
            lk.truncate(nkeys);
            rk.truncate(nkeys);
            let out = la + ra - nkeys;
            (IRNode::Join { left: Box::new(left), right: Box::new(right), left_keys: lk, right_keys: rk, output_schema: fresh(ctr, out) }, out)
        }
        8 | 9 => {
            // Antijoin: output = left
            let (left, la) = gen_plan(r, depth - 1, want, ctr);
            let (right, ra) = if r.chance(1, 5) {
                // statically empty right side
                let (inner, ia) = gen_plan(r, 0, None, ctr);
                if r.chance(1, 2) { (IRNode::Filter { input: Box::new(inner), predicate: Predicate::False }, ia) } else { (IRNode::Union { inputs: vec![] }, ia) }
            } else {
                gen_plan(r, depth - 1, None, ctr)
            };
            let nkeys = (1 + r.below(2)).min(la).min(ra);
            let mut lk: Vec<usize> = (0..la).collect();
            let mut rk: Vec<usize> = (0..ra).collect();
            r.shuffle(&mut lk);
            r.shuffle(&mut rk);
            lk.truncate(nkeys);
            rk.truncate(nkeys);
            (IRNode::Antijoin { left: Box::new(left), right: Box::new(right), left_keys: lk, right_keys: rk, output_schema: fresh(ctr, la) }, la)
        }
        10 => {
            let (input, ar) = gen_plan(r, depth - 1, want, ctr);
            (IRNode::Distinct { input: Box::new(input) }, ar)
        }
        _ => {
            // Union of 0-3 inputs of one arity
            let ar = want.unwrap_or(1 + r.below(3));
            let n = if r.chance(1, 8) { 0 } else { 1 + r.below(3) };
            let inputs: Vec<IRNode> = (0..n)
                .map(|_| {
                    if r.chance(1, 6) {
                        let (inner, _) = gen_plan(r, 0, Some(ar), ctr);
                        IRNode::Filter { input: Box::new(inner), predicate: Predicate::False }
                    } else {
                        gen_plan(r, depth - 1, Some(ar), ctr).0
                    }
                })
                .collect();
            (IRNode::Union { inputs }, ar)
        }
    }
}

fn synthetic_case(ctx: &mut Ctx, k: u64) {
    let mut r = ctx.rng(k);
    let mut ctr = 0usize;
    let depth = 1 + r.below(3) as u32;
    let (plan, _ar) = gen_plan(&mut r, depth, None, &mut ctr);
    let opts = GenOpts { max_edb: 8, ..GenOpts::default() };
    let mut found: Option<(refdl::Db, &'static str, Result<Rows, String>, Rows)> = None;
    for _ in 0..3 {
        let db = gen_edb(&mut r, &opts);
        ctx.evals(5);
        match exec(&plan, &db, None) {
            Err(_) => {
                ctx.count("unrewritten_synthetic_plan_rejected");
                return;
            }
            Ok(base) => {
                if !base.is_empty() {
                    ctx.nontrivial_str(&format!("{plan:?}|{db:?}"));
                }
            }
        }
        if let Some((pass, got, base)) = broken_pass(&plan, &db) {
            found = Some((db, pass, got, base));
            break;
        }
    }
    ctx.count("synthetic_plans");
    if k % 400 == 3 {
        ctx.sample(json!({"case": k, "synthetic_plan": format!("{plan:?}").chars().take(500).collect::<String>()}));
    }
    if let Some((db, pass, got, base)) = found {
        // structural class: which node kinds the plan contains
        let txt = format!("{plan:?}");
        let mut kinds: Vec<&str> = ["Antijoin", "Join", "Union", "Filter", "Map", "Distinct"].into_iter().filter(|n| txt.contains(&format!("{n} {{"))).collect();
        if txt.contains("predicate: False") {
            kinds.push("False-filter");
        }
        if txt.contains("inputs: []") {
            kinds.push("empty-Union");
        }
        let kind = match &got {
            Ok(g) if g.is_subset(&base) => "rows-lost",
            Ok(g) if base.is_subset(g) => "rows-added",
            Ok(_) => "rows-changed",
            Err(_) => "rewritten-plan-fails",
        };
        ctx.violation(k, &format!("C05:{pass}:{kind}:synthetic-plan:{}", kinds.join("+")), format!("pass {pass} changes the result of a synthetic plan"), json!({"plan": txt.chars().take(2500).collect::<String>(), "rewritten_plan": if pass == "optimize" { format!("{:?}", Optimizer::new().optimize(plan.clone())).chars().take(2500).collect::<String>() } else { String::new() }, "database": format!("{db:?}"), "pass": pass, "unrewritten_result": rows_json(&base.iter().cloned().collect::<Vec<_>>()), "rewritten_outcome": match got { Ok(g) => rows_json(&g.into_iter().collect::<Vec<_>>()), Err(e) => json!(e) }}));
    }
}

pub fn run(ctx: &mut Ctx) {
    let total = ctx.sz(2500, 50_000);
    for k in ctx.cases(total) {
        if k % 4 == 3 {
            synthetic_case(ctx, k);
            continue;
        }
        let mut r = ctx.rng(k);
        let opts = match k % 3 {
            0 => GenOpts { max_idb: 0, max_body: 4, cmp: 50, arith: 30, agg: 15, union: 60, neg: 20, ..GenOpts::default() },
            1 => GenOpts { max_idb: 1, max_body: 3, cmp: 40, arith: 25, rec: 10, mutual: 0, union: 50, ..GenOpts::default() },
            _ => GenOpts { max_body: 4, union: 40, ..GenOpts::default() },
        };
        let p = gen_program(&mut r, &opts);
        let Some((ps, db)) = plans(&p) else {
            ctx.count("plan_not_built");
            continue;
        };
        for (_h, ir) in &ps {
            ctx.evals(5);
            match exec(ir, &db, None) {
                Ok(base) => {
                    if !base.is_empty() {
                        ctx.nontrivial_str(&format!("{ir:?}|{db:?}"));
                        if k % 100 == 0 {
                            ctx.sample(json!({"case": k, "rule_program": p.to_json(), "plan": format!("{ir:?}").chars().take(400).collect::<String>(), "rows": base.len()}));
                        }
                    }
                }
                Err(_) => ctx.count("unrewritten_plan_rejected"),
            }
        }
        if first_broken(&p).is_some() {
            let small = shrink(&p, |c| first_broken(c).is_some(), 200);
            if let Some((head, pass, got, base, plan)) = first_broken(&small) {
                let f = features(&small).iter().copied().collect::<Vec<_>>().join("+");
                let kind = match &got {
                    Ok(g) if g.is_subset(&base) => "rows-lost",
                    Ok(g) if base.is_subset(g) => "rows-added",
                    Ok(_) => "rows-changed",
                    Err(_) => "rewritten-plan-fails",
                };
                ctx.violation(
                    k,
                    &format!("C05:{pass}:{kind}:{f}"),
                    format!("pass {pass} changes the result of the plan for `{head}`"),
                    json!({"minimised": small.to_json(), "head": head, "pass": pass, "unrewritten_plan": plan.chars().take(1500).collect::<String>(), "unrewritten_result": rows_json(&base.iter().cloned().collect::<Vec<_>>()), "rewritten_outcome": match got { Ok(g) => rows_json(&g.into_iter().collect::<Vec<_>>()), Err(e) => json!(e) }}),
                );
            }
        }
    }
}
