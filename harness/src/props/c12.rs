//! C12 — every stored value survives restart unchanged (oracle: identity, bitwise and kind-sensitive).

use crate::ctx::{Ctx, Meta};
use crate::store::*;
use inputlayer::{Tuple, Value};
use serde_json::json;
use std::collections::BTreeSet;
use std::sync::Arc;

pub static META: Meta = Meta {
    id: "C12",
    level: "exploration",
    rule: "generated relations (arity 1-3, 1-8 tuples) over values of every kind (Int32, Int64 extremes, Float64 incl. +-0.0/NaN/inf/subnormal, strings incl. empty/unicode/quotes/backslashes/newlines, Bool, Null, Timestamp, Vector and VectorInt8 of dim 0-8): homogeneous columns, every ordered pair of kinds in one column, vectors of differing dimension; inserted tuple-by-tuple or as one batch; persisted through the WAL only, through save_all, or through buffer_size 1/2 auto-flush; the store is reopened twice and the dump must equal the set of tuples the engine accepted (and its own live dump); distinct = tuples+mode; non-trivial = at least one accepted tuple",
    assumptions: &["a tuple the engine rejects at insert time (Err) is outside the property", "equality is Value's bitwise, kind-sensitive Eq"],
    floor: 100,
    watchdog: (0, 0),
};

const KINDS: [&str; 9] = ["Int32", "Int64", "Float64", "String", "Bool", "Null", "Timestamp", "Vector", "VectorInt8"];

fn gen_value(r: &mut crate::rng::Rng, kind: &str, dim: usize) -> Value {
    match kind {
        "Int32" => Value::Int32(*r.pick(&[0, 1, -1, 7, i32::MAX, i32::MIN])),
        "Int64" => Value::Int64(*r.pick(&[0, 1, -1, 42, i64::MAX, i64::MIN, 1 << 40])),
        "Float64" => Value::Float64(*r.pick(&[0.0, -0.0, 1.5, -2.25, 1e30, 1e-7, f64::INFINITY, f64::NEG_INFINITY, f64::NAN, f64::MIN_POSITIVE / 8.0, 2.0])),
        "String" => Value::string(*r.pick(&["", "a", "hello world", "q\"uote", "back\\slash", "new\nline", "\u{e9}\u{4e2d}\u{1F600}", "//c", "1", "null", "true"])),
        "Bool" => Value::Bool(r.chance(1, 2)),
        "Null" => Value::Null,
        "Timestamp" => Value::Timestamp(*r.pick(&[0, 5, -5, 1_700_000_000_000, i64::MAX])),
        "Vector" => Value::Vector(Arc::new((0..dim).map(|_| *r.pick(&[0.0f32, -0.0, 1.0, -1.5, 3.25, 1e30, f32::MIN_POSITIVE])).collect())),
        _ => Value::VectorInt8(Arc::new((0..dim).map(|_| *r.pick(&[0i8, 1, -1, 127, -128])).collect())),
    }
}

fn vkind(v: &Value) -> String {
    match v {
        Value::Int32(_) => "Int32".into(),
        Value::Int64(_) => "Int64".into(),
        Value::Float64(f) if f.is_nan() => "Float64(NaN)".into(),
        Value::Float64(f) if f.is_infinite() => "Float64(inf)".into(),
        Value::Float64(_) => "Float64".into(),
        Value::String(_) => "String".into(),
        Value::Bool(_) => "Bool".into(),
        Value::Null => "Null".into(),
        Value::Timestamp(_) => "Timestamp".into(),
        Value::Vector(v) if v.is_empty() => "Vector(dim0)".into(),
        Value::VectorInt8(v) if v.is_empty() => "VectorInt8(dim0)".into(),
        Value::Vector(_) => "Vector".into(),
        Value::VectorInt8(_) => "VectorInt8".into(),
    }
}

#[derive(Clone, Debug)]
struct Case {
    tuples: Vec<Tuple>,
    /// 0 = WAL only, 1 = save_all before shutdown, 2 = buffer_size 1, 3 = buffer_size 2
    mode: u8,
    one_batch: bool,
}

enum Outcome {
    Ok(usize),
    Inconclusive(String),
    /// (effect, detail, accepted, recovered)
    Bad(String, String, Vec<Tuple>, Vec<Tuple>),
}

fn run_case(c: &Case) -> Outcome {
    let scratch = Scratch::new("c12");
    let o = StoreOpts { buffer_size: match c.mode { 2 => 1, 3 => 2, _ => 10_000 }, ..Default::default() };
    let e = match open(&scratch.path, &o) {
        Ok(e) => e,
        Err(x) => return Outcome::Inconclusive(format!("open: {x}")),
    };
    let mut accepted: BTreeSet<Tuple> = BTreeSet::new();
    let batches: Vec<Vec<Tuple>> = if c.one_batch { vec![c.tuples.clone()] } else { c.tuples.iter().map(|t| vec![t.clone()]).collect() };
    for b in batches {
        match crate::ctx::guarded(|| e.insert_tuples_into("default", "r", b.clone())) {
            Ok(Ok(_)) => accepted.extend(b),
            Ok(Err(_)) => {}
            Err(p) => return Outcome::Bad("insert-panic".into(), p, accepted.into_iter().collect(), vec![]),
        }
    }
    let accepted: Vec<Tuple> = accepted.into_iter().collect();
    let live = dump_facts(&e, "default").map(|f| f.get("r").cloned().unwrap_or_default()).unwrap_or_default();
    if live != accepted {
        return Outcome::Bad("live-differs-from-accepted".into(), "the live dump is not the set of accepted tuples".into(), accepted, live);
    }
    if c.mode == 1 {
        if let Err(x) = crate::ctx::guarded(|| e.save_all()).map_err(|p| p).and_then(|r| r.map_err(|x| format!("{x}"))) {
            // a failing save is reported only if it makes the store lose data / unopenable below
            let _ = x;
        }
    }
    drop(e);
    for round in 0..2 {
        let e2 = match open(&scratch.path, &o) {
            Ok(e) => e,
            Err(x) => return Outcome::Bad("unopenable".into(), format!("reopen #{round}: {x}"), accepted, vec![]),
        };
        let rec = dump_facts(&e2, "default").map(|f| f.get("r").cloned().unwrap_or_default()).unwrap_or_default();
        if rec != accepted {
            let effect = if rec.len() < accepted.len() { "lost" } else if rec.len() > accepted.len() { "extra" } else { "changed" };
            return Outcome::Bad(effect.into(), format!("dump after reopen #{round} differs"), accepted, rec);
        }
        drop(e2);
    }
    Outcome::Ok(accepted.len())
}

fn signature(c: &Case, effect: &str) -> String {
    let path = match c.mode { 0 => "wal", 1 => "save_all", _ => "auto-flush" };
    // columns whose kinds differ across the (minimised) tuples
    let arity = c.tuples.first().map_or(0, Tuple::arity);
    let mut mix: Vec<String> = Vec::new();
    let mut kinds_all: BTreeSet<String> = BTreeSet::new();
    let mut dim_mix = false;
    for col in 0..arity {
        let ks: Vec<String> = c.tuples.iter().map(|t| vkind(&t.values()[col])).collect();
        let set: BTreeSet<&String> = ks.iter().collect();
        kinds_all.extend(ks.iter().cloned());
        if set.len() > 1 {
            mix.push(format!("first={}:later={}", ks[0], ks.iter().find(|k| **k != ks[0]).cloned().unwrap_or_default()));
        }
        let dims: BTreeSet<usize> = c.tuples.iter().filter_map(|t| match &t.values()[col] { Value::Vector(v) => Some(v.len()), Value::VectorInt8(v) => Some(v.len()), _ => None }).collect();
        if dims.len() > 1 {
            dim_mix = true;
        }
    }
    if dim_mix {
        format!("C12:vector-dim-mix:{path}:{effect}")
    } else if !mix.is_empty() {
        format!("C12:column-mix:{path}:{}:{effect}", mix[0])
    } else {
        format!("C12:homogeneous:{}:{path}:{effect}", kinds_all.into_iter().collect::<Vec<_>>().join("+"))
    }
}

pub fn run(ctx: &mut Ctx) {
    let total = ctx.sz(600, 12_000);
    for k in ctx.cases(total) {
        let mut r = ctx.rng(k);
        let arity = 1 + r.below(3);
        let n = 1 + r.below(8);
        let shape = k % 4;
        let dim = r.below(9);
        // per-column kind plan
        let col_kinds: Vec<Vec<&str>> = (0..arity)
            .map(|c| match shape {
                0 | 1 => vec![*r.pick(&KINDS)],                                                    // homogeneous
                2 if c == 0 => vec![KINDS[(k / 4 % 9) as usize], KINDS[(k / 36 % 9) as usize]], // every ordered pair
                _ => {
                    if r.chance(1, 3) { vec![*r.pick(&KINDS), *r.pick(&KINDS)] } else { vec![*r.pick(&KINDS)] }
                }
            })
            .collect();
        let tuples: Vec<Tuple> = (0..n)
            .map(|i| {
                Tuple::new(
                    col_kinds
                        .iter()
                        .map(|ks| {
                            let kind = if i == 0 { ks[0] } else { *r.pick(ks) };
                            let d = if shape == 3 && r.chance(1, 4) { r.below(9) } else { dim };
                            gen_value(&mut r, kind, d)
                        })
                        .collect(),
                )
            })
            .collect();
        let c = Case { tuples, mode: (r.below(4)) as u8, one_batch: r.chance(1, 2) };
        ctx.eval();
        ctx.trace(|| format!("{c:?}"));
        match run_case(&c) {
            Outcome::Inconclusive(w) => ctx.inconclusive(format!("case {k}: {w}")),
            Outcome::Ok(acc) => {
                if acc > 0 {
                    ctx.nontrivial(crate::rng::hash_str(&format!("{c:?}")));
                    if k % 50 == 0 {
                        ctx.sample(json!({"tuples": c.tuples.iter().map(tuple_str).collect::<Vec<_>>(), "mode": c.mode, "one_batch": c.one_batch, "accepted": acc}));
                    }
                } else {
                    ctx.count("all_tuples_rejected");
                }
            }
            Outcome::Bad(..) => {
                ctx.nontrivial(crate::rng::hash_str(&format!("{c:?}")));
                // minimise: remove tuples while the case still fails
                let mut small = c.clone();
                let mut i = 0;
                while i < small.tuples.len() && small.tuples.len() > 1 {
                    let mut t = small.clone();
                    t.tuples.remove(i);
                    if matches!(run_case(&t), Outcome::Bad(..)) {
                        small = t;
                    } else {
                        i += 1;
                    }
                }
                // ... and columns
                let mut col = 0;
                while small.tuples.first().map_or(0, Tuple::arity) > 1 && col < small.tuples[0].arity() {
                    let mut t = small.clone();
                    t.tuples = t.tuples.iter().map(|x| Tuple::new(x.values().iter().enumerate().filter(|(i, _)| *i != col).map(|(_, v)| v.clone()).collect())).collect();
                    if matches!(run_case(&t), Outcome::Bad(..)) {
                        small = t;
                    } else {
                        col += 1;
                    }
                }
                let mode_name = ["wal-only", "save_all", "buffer_size=1", "buffer_size=2"][small.mode as usize];
                if let Outcome::Bad(effect, detail, acc, rec) = run_case(&small) {
                    ctx.violation(
                        k,
                        &signature(&small, &effect),
                        format!("{effect}: {detail}"),
                        json!({"minimised_tuples": small.tuples.iter().map(tuple_str).collect::<Vec<_>>(), "mode": mode_name, "one_batch": small.one_batch, "accepted": acc.iter().map(tuple_str).collect::<Vec<_>>(), "recovered": rec.iter().map(tuple_str).collect::<Vec<_>>(), "original_tuples": c.tuples.iter().map(tuple_str).collect::<Vec<_>>()}),
                    );
                }
            }
        }
    }
}
