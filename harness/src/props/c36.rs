//! C36 — bloom filters have no false negatives; hash-index lookups return exactly the stored
//! tuples with that key after any history of insert / remove / build_from_tuples.

use crate::ctx::{guarded, Ctx, Meta};
use crate::props::c31::domain;
use inputlayer::bloom_filter::{BloomFilter, BloomFilterBuilder};
use inputlayer::hash_index::{HashIndex, JoinKeySpec};
use inputlayer::{Tuple, Value};
use serde_json::json;
use std::collections::HashMap;

pub static META: Meta = Meta {
    id: "C36",
    level: "exploration",
    rule: "(a) bloom: random key sets (ints, strings, Values of every kind incl. float edge values, tuples) inserted into filters of every construction (new(n,p) for n in 1..10^5 and p from 1e-9 to 0.999999, with_params incl. (0,0),(1,1),(63,40),(65,3), builder/build_from, after clear): every inserted key must test positive at every later point; (b) hash index: growth histories inserting 150-5000 distinct keys one by one into an index created for 0-1000 keys (probe of the key just written, full sweep every 97 ops), and random histories of insert/remove/build_from_tuples over a small tuple domain with key columns of 0-2 positions; after every step get/get_with_bloom/probe of every candidate key must equal, as a multiset, the model's tuples with that key, and len/num_keys/num_tuples must equal the model's; distinct = distinct key set / history; non-trivial = at least 2 keys or 3 operations",
    assumptions: &["the multiset model (HashMap<key, Vec<tuple>>) uses Value's own Eq/Hash for keys, as the property's 'key columns equal the probe key' does"],
    floor: 200,
    watchdog: (0, 0),
};

/// C31's domain restricted to values that equal themselves (a model keyed by Eq/Hash needs that;
/// reflexivity itself is C31's concern)
#[allow(clippy::eq_op)]
fn sane_domain() -> Vec<Value> {
    domain().into_iter().filter(|v| v == v).collect()
}

fn rand_value(r: &mut crate::rng::Rng, d: &[Value]) -> Value {
    match r.below(6) {
        0 => Value::Int64(r.range(-3, 3)),
        1 => Value::Int64(r.next_u64() as i64),
        2 => Value::string(&format!("k{}", r.below(50))),
        3 => Value::Float64(f64::from_bits(r.next_u64())),
        _ => r.pick(d).clone(),
    }
}

fn bloom_case(ctx: &mut Ctx, k: u64) {
    let d = sane_domain();
    let mut r = ctx.rng(k);
    let (mut f, how): (BloomFilter, String) = match r.below(5) {
        0 => {
            let n = [1usize, 2, 7, 100, 1000, 100_000][r.below(6)];
            let p = [1e-9, 1e-4, 0.01, 0.5, 0.99, 0.999_999][r.below(6)];
            (BloomFilter::new(n, p), format!("new({n},{p})"))
        }
        1 => {
            let bits = [0usize, 1, 63, 64, 65, 128, 1000, 4096][r.below(8)];
            let hs = [0usize, 1, 2, 3, 7, 16, 32, 40][r.below(8)];
            (BloomFilter::with_params(bits, hs), format!("with_params({bits},{hs})"))
        }
        2 => (BloomFilterBuilder::new().expected_elements(1 + r.below(500)).false_positive_rate(0.05).build(), "builder".into()),
        3 => {
            let pre: Vec<i64> = (0..r.below(30) as i64).collect();
            (BloomFilterBuilder::new().expected_elements(pre.len().max(1)).build_from(pre.iter()), "build_from".into())
        }
        _ => {
            let mut f = BloomFilter::with_params(64 * (1 + r.below(4)), 1 + r.below(8));
            for i in 0..20 {
                f.insert(&i);
            }
            f.clear();
            (f, "cleared".into())
        }
    };
    let nkeys = 1 + r.below(if ctx.quick() { 200 } else { 2000 });
    let mut ints: Vec<i64> = Vec::new();
    let mut strs: Vec<String> = Vec::new();
    let mut vals: Vec<Value> = Vec::new();
    let mut tups: Vec<Tuple> = Vec::new();
    ctx.eval();
    if nkeys >= 2 {
        ctx.nontrivial(crate::rng::hash_str(&format!("{how}/{k}")));
    }
    for i in 0..nkeys {
        match r.below(4) {
            0 => {
                let x = if r.chance(1, 2) { r.next_u64() as i64 } else { r.range(-5, 5) };
                f.insert(&x);
                ints.push(x);
            }
            1 => {
                let s = format!("s{}", r.next_u64() % 1000);
                f.insert(&s);
                strs.push(s);
            }
            2 => {
                let v = rand_value(&mut r, &d);
                f.insert(&v);
                vals.push(v);
            }
            _ => {
                let t = Tuple::new((0..r.below(3)).map(|_| rand_value(&mut r, &d)).collect());
                f.insert(&t);
                tups.push(t);
            }
        }
        // check everything inserted so far every so often, and at the end
        if i + 1 == nkeys || r.chance(1, 20) {
            let miss = ints.iter().find(|x| !f.might_contain(*x)).map(|x| format!("{x}"))
                .or_else(|| strs.iter().find(|x| !f.might_contain(*x)).cloned())
                .or_else(|| vals.iter().find(|x| !f.might_contain(*x)).map(|x| format!("{x:?}")))
                .or_else(|| tups.iter().find(|x| !f.might_contain(*x)).map(|x| format!("{x:?}")));
            if let Some(m) = miss {
                ctx.violation(k, &format!("C36:bloom:false-negative:{}", how.split('(').next().unwrap_or("")), format!("inserted key {m} reported absent by {how}"), json!({"filter": how, "key": m, "inserted": i + 1, "num_bits": f.num_bits(), "num_hashes": f.num_hashes()}));
                return;
            }
            if f.len() != i + 1 {
                ctx.count("obs:bloom_len_differs_from_insertions");
            }
        }
    }
    if k < 2 {
        ctx.sample(json!({"kind": "bloom", "filter": how, "keys": nkeys, "num_bits": f.num_bits(), "num_hashes": f.num_hashes()}));
    }
}

fn multiset(v: &[Tuple]) -> HashMap<Tuple, usize> {
    let mut m = HashMap::new();
    for t in v {
        *m.entry(t.clone()).or_insert(0) += 1;
    }
    m
}

fn index_case(ctx: &mut Ctx, k: u64) {
    let d = sane_domain();
    let mut r = ctx.rng(k);
    let arity = 1 + r.below(3);
    let mut key_cols: Vec<usize> = (0..arity).filter(|_| r.chance(1, 2)).collect();
    if r.chance(1, 6) && arity > 1 {
        key_cols = vec![1, 0]; // reordered key
    }
    // small per-column domains so that keys collide
    let cols: Vec<Vec<Value>> = (0..arity).map(|_| (0..(1 + r.below(4))).map(|_| rand_value(&mut r, &d)).collect()).collect();
    let mk = |r: &mut crate::rng::Rng| Tuple::new(cols.iter().map(|c| r.pick(c).clone()).collect());
    let key_of = |t: &Tuple| Tuple::new(key_cols.iter().map(|&c| t.values()[c].clone()).collect());
    let mut idx = HashIndex::new(JoinKeySpec::new("r", key_cols.clone()), [0usize, 1, 10, 1000][r.below(4)]);
    let mut model: Vec<Tuple> = Vec::new();
    let steps = 3 + r.below(if ctx.quick() { 40 } else { 120 });
    let mut hist: Vec<String> = Vec::new();
    ctx.eval();
    ctx.nontrivial(crate::rng::hash_str(&format!("idx{k}")));
    for step in 0..steps {
        match r.below(10) {
            0..=4 => {
                let t = mk(&mut r);
                hist.push(format!("insert {t:?}"));
                idx.insert(t.clone());
                model.push(t);
            }
            5..=7 => {
                let t = if !model.is_empty() && r.chance(2, 3) { model[r.below(model.len())].clone() } else { mk(&mut r) };
                hist.push(format!("remove {t:?}"));
                let got = idx.remove(&t);
                let want = if let Some(p) = model.iter().position(|x| *x == t) {
                    model.remove(p);
                    true
                } else {
                    false
                };
                if got != want {
                    ctx.violation(k, "C36:index:remove-report", format!("remove returned {got}, model says {want}"), json!({"history": hist, "key_columns": key_cols}));
                    return;
                }
            }
            _ => {
                let n = r.below(12);
                let ts: Vec<Tuple> = (0..n).map(|_| mk(&mut r)).collect();
                hist.push(format!("build_from_tuples {ts:?}"));
                idx.build_from_tuples(ts.clone());
                model = ts;
            }
        }
        ctx.evals(1);
        // candidate keys: every key of the per-column domains (present or not)
        let mut by_key: HashMap<Tuple, Vec<Tuple>> = HashMap::new();
        for t in &model {
            by_key.entry(key_of(t)).or_default().push(t.clone());
        }
        let mut cands: Vec<Tuple> = by_key.keys().cloned().collect();
        for _ in 0..6 {
            cands.push(key_of(&mk(&mut r)));
        }
        for key in &cands {
            let want = by_key.get(key).map(|v| multiset(v)).unwrap_or_default();
            let g1 = idx.get(key).map(|v| multiset(v)).unwrap_or_default();
            let g2 = idx.get_with_bloom(key).map(|v| multiset(v)).unwrap_or_default();
            let g3 = multiset(&idx.probe(key).cloned().collect::<Vec<_>>());
            for (name, g) in [("get", &g1), ("get_with_bloom", &g2), ("probe", &g3)] {
                if *g != want {
                    let dir = if g.values().sum::<usize>() < want.values().sum::<usize>() { "lost-tuples" } else { "extra-or-wrong-tuples" };
                    ctx.violation(k, &format!("C36:index:{name}:{dir}"), format!("{name}({key:?}) returned {} tuples, model has {}", g.values().sum::<usize>(), want.values().sum::<usize>()), json!({"history": hist, "key_columns": key_cols, "key": format!("{key:?}"), "step": step}));
                    return;
                }
            }
            if !want.is_empty() && !idx.might_contain_key(key) {
                ctx.violation(k, "C36:index:might_contain_key:false-negative", format!("key {key:?} is stored but the index's bloom filter denies it"), json!({"history": hist, "key_columns": key_cols}));
                return;
            }
        }
        let st = idx.stats();
        if idx.len() != model.len() || st.num_tuples != model.len() || st.num_keys != by_key.len() || idx.is_empty() != model.is_empty() {
            ctx.violation(k, "C36:index:counts", format!("len={} num_tuples={} num_keys={}, model has {} tuples / {} keys", idx.len(), st.num_tuples, st.num_keys, model.len(), by_key.len()), json!({"history": hist, "key_columns": key_cols}));
            return;
        }
        let maxk = by_key.values().map(Vec::len).max().unwrap_or(0);
        if st.max_tuples_per_key != maxk {
            ctx.count("obs:max_tuples_per_key_stale"); // advisory statistic, not part of the property
        }
    }
    if k % 2 == 1 && k < 5 {
        ctx.sample(json!({"kind": "hash_index", "key_columns": key_cols, "history": hist.iter().take(8).collect::<Vec<_>>(), "steps": steps}));
    }
}

/// many distinct keys inserted one by one (an index growing far past the size it was created for),
/// interleaved with removals; the key just written is probed immediately, everything periodically
fn growth_case(ctx: &mut Ctx, k: u64) {
    let mut r = ctx.rng(k);
    let expected = [0usize, 1, 10, 100, 128, 1000][r.below(6)];
    let target = if ctx.quick() { 150 + r.below(1200) } else { 150 + r.below(5000) };
    let mut idx = HashIndex::new(JoinKeySpec::new("r", vec![0]), expected);
    let mut model: HashMap<i64, Vec<Tuple>> = HashMap::new();
    let mut next_key: i64 = r.range(-50, 50);
    ctx.eval();
    ctx.nontrivial(crate::rng::hash_str(&format!("growth{k}")));
    let mut ops = 0usize;
    while model.len() < target && ops < 4 * target {
        ops += 1;
        let roll = r.below(10);
        if roll < 7 || model.is_empty() {
            // new key (mostly) or a second tuple for an existing key
            let key = if roll == 0 && !model.is_empty() { *model.keys().next().unwrap_or(&next_key) } else { next_key += 1 + r.range(0, 2); next_key };
            let t = crate::store::ituple(&[key, r.range(0, 3)]);
            idx.insert(t.clone());
            model.entry(key).or_default().push(t);
            let kt = crate::store::ituple(&[key]);
            let want = multiset(&model[&key]);
            let got = multiset(&idx.probe(&kt).cloned().collect::<Vec<_>>());
            if got != want || !idx.might_contain_key(&kt) || idx.get(&kt).map(|v| multiset(v)).unwrap_or_default() != want {
                ctx.violation(k, "C36:index:growth:key-lost-right-after-insert", format!("after inserting key {key} as distinct key #{} (index created for {expected} keys) probe/get/might_contain_key do not return it", model.len()), json!({"expected_keys": expected, "distinct_keys": model.len(), "key": key}));
                return;
            }
        } else {
            let key = *model.keys().nth(r.below(model.len().min(8))).unwrap_or(&0);
            let v = model.get_mut(&key).unwrap();
            let t = v.pop().unwrap();
            if v.is_empty() {
                model.remove(&key);
            }
            if !idx.remove(&t) {
                ctx.violation(k, "C36:index:growth:remove-report", "remove of a stored tuple returned false".into(), json!({"expected_keys": expected, "key": key}));
                return;
            }
        }
        if ops % 97 == 0 || model.len() == target {
            ctx.evals(1);
            for (key, ts) in &model {
                let kt = crate::store::ituple(&[*key]);
                let got = multiset(&idx.probe(&kt).cloned().collect::<Vec<_>>());
                if got != multiset(ts) || !idx.might_contain_key(&kt) {
                    ctx.violation(k, "C36:index:growth:key-lost", format!("stored key {key} is not returned by probe / denied by the index's bloom filter with {} distinct keys (index created for {expected})", model.len()), json!({"expected_keys": expected, "distinct_keys": model.len(), "key": key, "ops": ops}));
                    return;
                }
            }
            if idx.stats().num_keys != model.len() || idx.len() != model.values().map(Vec::len).sum::<usize>() {
                ctx.violation(k, "C36:index:growth:counts", "num_keys/len differ from the model".into(), json!({"expected_keys": expected, "distinct_keys": model.len()}));
                return;
            }
        }
    }
    if k % 3 == 2 && k < 12 {
        ctx.sample(json!({"kind": "hash_index_growth", "expected_keys": expected, "distinct_keys_reached": model.len(), "ops": ops}));
    }
}

pub fn run(ctx: &mut Ctx) {
    let total = ctx.sz(1200, 24_000);
    for k in ctx.cases(total) {
        let res = guarded(|| {
            let mut sub = Ctx::new(ctx.id, ctx.tier, ctx.seed, ctx.shard, None);
            if k % 12 == 5 {
                growth_case(&mut sub, k);
            } else if k % 2 == 0 {
                bloom_case(&mut sub, k);
            } else {
                index_case(&mut sub, k);
            }
            sub.report
        });
        match res {
            Ok(rep) => ctx.report.merge(rep),
            Err(e) => ctx.violation(k, &format!("C36:{}:panic", if k % 2 == 0 { "bloom" } else { "index" }), e, json!({"case": k})),
        }
        ctx.evals(0);
    }
}
