//! C01 — query answers equal the stratified least model (oracle: RefDL).

use crate::ctx::{Ctx, Meta};
use crate::eng::*;
use crate::gen::*;
use crate::refdl;
use crate::shrink::{features, shrink};
use serde_json::json;

pub static META: Meta = Meta {
    id: "C01",
    level: "exploration",
    rule: "seeded generator of stratified programs (<=4 IDB, <=10 clauses, arity<=3, joins/constants/comparisons/arithmetic/negation/self+mutual recursion/aggregates) x random EDB over {0..4}; executed by the real IQLEngine at default config and compared tuple-for-tuple with an independent naive stratified evaluator; a case is non-trivial when the reference answer is non-empty and the program has a join, recursion, negation or aggregate; distinct = distinct program text + EDB",
    assumptions: &[
        "RefDL (harness/src/refdl.rs) implements the perfect-model semantics of the fragment",
        "fragment excludes division/modulo/floats/builtins; values are small ints so no overflow",
        "engine errors on a generated program are counted as rejected, not as violations",
    ],
    floor: 30,
    watchdog: (0, 0),
};

pub fn classify(p: &GenProgram, kind: &str) -> String {
    let f = features(p);
    let class = if f.contains("mutual-recursion") {
        "mutual-recursion".to_string()
    } else if f.contains("union-of-join-clauses") {
        "union-of-join-clauses".to_string()
    } else {
        f.iter().copied().collect::<Vec<_>>().join("+")
    };
    format!("C01:{class}:{kind}")
}

pub fn run(ctx: &mut Ctx) {
    let total = ctx.sz(16_000, 160_000);
    let opts = GenOpts::default();
    // every third case is a small program (0-1 intermediate relations, 1-2 body atoms, few filters):
    // complex programs mostly have empty answers, small ones exercise single operators with data flowing
    let simple = GenOpts { max_idb: 1, max_body: 2, neg: 5, cmp: 10, agg: 10, arith: 10, union: 15, rec: 15, mutual: 0, bound_query: 10, ..GenOpts::default() };
    for k in ctx.cases(total) {
        let mut r = ctx.rng(k);
        let p = gen_program(&mut r, if k % 3 == 0 { &simple } else { &opts });
        let model = match refdl::evaluate(&p.clauses, &p.edb, false) {
            Ok(m) => m,
            Err(e) => {
                ctx.count(&format!("ref_rejected:{e:?}").chars().take(40).collect::<String>());
                continue;
            }
        };
        let want = model.db.get("q").cloned().unwrap_or_default();
        ctx.eval();
        for t in &p.tags {
            ctx.count(&format!("tag:{t}"));
        }
        match run_engine(&p, &RunOpts::default()) {
            Err(e) => {
                ctx.count("engine_rejected");
                if ctx.report.inconclusive.len() < 5 {
                    ctx.inconclusive(format!("engine error on case {k}: {e} :: {}", p.text().replace('\n', " ; ")));
                }
            }
            Ok(ans) => {
                let got = ans.set();
                let nontrivial = !want.is_empty() && p.tags.iter().any(|t| ["join2", "join3plus", "rec_self", "rec_mutual", "neg", "agg"].contains(t));
                if nontrivial {
                    ctx.nontrivial_str(&format!("{}|{:?}", p.text(), p.edb));
                    ctx.sample(json!({"case": k, "input": p.to_json(), "answer": rel_json(&got)}));
                }
                if got != want {
                    let fails = |c: &GenProgram| -> bool {
                        let Ok(m) = refdl::evaluate(&c.clauses, &c.edb, false) else { return false };
                        let w = m.db.get("q").cloned().unwrap_or_default();
                        matches!(run_engine(c, &RunOpts::default()), Ok(a) if a.set() != w)
                    };
                    let small = shrink(&p, fails, 400);
                    let m = refdl::evaluate(&small.clauses, &small.edb, false).expect("shrunk program evaluates");
                    let w = m.db.get("q").cloned().unwrap_or_default();
                    let g = run_engine(&small, &RunOpts::default()).map(|a| a.set()).unwrap_or_default();
                    let sig = classify(&small, diff_kind(&g, &w));
                    ctx.violation(
                        k,
                        &sig,
                        format!("engine answer differs from the stratified least model ({})", diff_kind(&g, &w)),
                        json!({"minimised": small.to_json(), "engine": rel_json(&g), "reference": rel_json(&w), "original": p.to_json()}),
                    );
                }
            }
        }
    }
}
