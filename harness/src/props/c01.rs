//! C01 — query answers equal the stratified least model (oracle: RefDL).

use crate::ctx::{Ctx, Meta};
use crate::eng::*;
use crate::gen::*;
use crate::refdl;
use crate::shrink::{features, shrink};
use serde_json::json;

pub static META: Meta = Meta {
    id: "C01",
    level: "exploration",
    rule: "seeded generator of stratified programs (<=4 IDB, <=10 clauses, arity<=3, joins/constants/comparisons/arithmetic/negation/self+mutual recursion/aggregates) x random EDB over {0..4}; executed by the real IQLEngine at default config and compared tuple-for-tuple with an independent naive stratified evaluator; a case is non-trivial when the reference answer is non-empty and the program has a join, recursion, negation or aggregate; distinct = distinct program text + EDB",
    assumptions: &[
        "RefDL (harness/src/refdl.rs) implements the perfect-model semantics of the fragment",
        "fragment excludes division/modulo/floats/builtins; values are small ints so no overflow",
        "engine errors on a generated program are counted as rejected, not as violations",
    ],
    floor: 30,
    watchdog: (0, 0),
};

pub fn classify(p: &GenProgram, kind: &str) -> String {
    let f = features(p);
    let class = if f.contains("mutual-recursion") {
        "mutual-recursion".to_string()
    } else if f.contains("union-of-join-clauses") {
        "union-of-join-clauses".to_string()
    } else {
        f.iter().copied().collect::<Vec<_>>().join("+")
    };
    format!("C01:{class}:{kind}")
}

pub fn run(ctx: &mut Ctx) {
    let total = ctx.sz(16_000, 160_000);
    let opts = GenOpts::default();
    // every third case is a small program (0-1 intermediate relations, 1-2 body atoms, few filters):
    // complex programs mostly have empty answers, small ones exercise single operators with data flowing
    let simple = GenOpts { max_idb: 1, max_body: 2, neg: 5, cmp: 10, agg: 10, arith: 10, union: 15, rec: 15, mutual: 0, bound_query: 10, ..GenOpts::default() };
    for k in ctx.cases(total) {
        let mut r = ctx.rng(k);
        let p = gen_program(&mut r, if k % 3 == 0 { &simple } else { &opts });
        let model = match refdl::evaluate(&p.clauses, &p.edb, false) {
            Ok(m) => m,
            Err(e) => {
                ctx.count(&format!("ref_rejected:{e:?}").chars().take(40).collect::<String>());
                continue;
            }
        };
        let want = model.db.get("q").cloned().unwrap_or_default();
        ctx.eval();
        for t in &p.tags {
            ctx.count(&format!("tag:{t}"));
        }
        bound_queries(ctx, k, &mut r, &p, &model);
        match run_engine(&p, &RunOpts::default()) {
            Err(e) => {
                ctx.count("engine_rejected");
                if ctx.report.inconclusive.len() < 5 {
                    ctx.inconclusive(format!("engine error on case {k}: {e} :: {}", p.text().replace('\n', " ; ")));
                }
            }
            Ok(ans) => {
                let got = ans.set();
                let nontrivial = !want.is_empty() && p.tags.iter().any(|t| ["join2", "join3plus", "rec_self", "rec_mutual", "neg", "agg"].contains(t));
                if nontrivial {
                    ctx.nontrivial_str(&format!("{}|{:?}", p.text(), p.edb));
                    ctx.sample(json!({"case": k, "input": p.to_json(), "answer": rel_json(&got)}));
                }
                if got != want {
                    let fails = |c: &GenProgram| -> bool {
                        let Ok(m) = refdl::evaluate(&c.clauses, &c.edb, false) else { return false };
                        let w = m.db.get("q").cloned().unwrap_or_default();
                        matches!(run_engine(c, &RunOpts::default()), Ok(a) if a.set() != w)
                    };
                    let small = shrink(&p, fails, 400);
                    let m = refdl::evaluate(&small.clauses, &small.edb, false).expect("shrunk program evaluates");
                    let w = m.db.get("q").cloned().unwrap_or_default();
                    let g = run_engine(&small, &RunOpts::default()).map(|a| a.set()).unwrap_or_default();
                    let sig = classify(&small, diff_kind(&g, &w));
                    ctx.violation(
                        k,
                        &sig,
                        format!("engine answer differs from the stratified least model ({})", diff_kind(&g, &w)),
                        json!({"minimised": small.to_json(), "engine": rel_json(&g), "reference": rel_json(&w), "original": p.to_json()}),
                    );
                }
            }
        }
    }
}

/// The text the protocol handler builds for `?h(k, V1, ..)`: a `__query__` rule whose constant
/// arguments are bound through equalities (this form — and only this one — triggers the engine's
/// demand-driven rewriting of recursive relations).
fn bound_query_text(front: &[refdl::Clause], h: &str, ar: usize, bound: &[(usize, i64)]) -> String {
    let args: Vec<String> = (0..ar).map(|i| if bound.iter().any(|(p, _)| *p == i) { format!("_c{i}") } else { format!("V{i}") }).collect();
    let eqs: Vec<String> = bound.iter().map(|(p, c)| format!("_c{p} = {c}")).collect();
    format!("{}\n__query__({}) <- {h}({}), {}", refdl::program_text(front), args.join(", "), args.join(", "), eqs.join(", "))
}

fn bound_outcome(c: &GenProgram, h: &str, bound: &[(usize, i64)]) -> Option<(refdl::Rel, refdl::Rel)> {
    let front: Vec<refdl::Clause> = c.clauses.iter().filter(|x| x.head != "q").cloned().collect();
    let ar = front.iter().find(|x| x.head == h)?.hargs.len();
    if bound.iter().any(|(p, _)| *p >= ar) {
        return None;
    }
    let m = refdl::evaluate(&front, &c.edb, false).ok()?;
    let want: refdl::Rel = m.db.get(h).cloned().unwrap_or_default().into_iter().filter(|t| bound.iter().all(|(p, k)| t[*p] == refdl::V::I(*k))).collect();
    let got = run_text(&bound_query_text(&front, h, ar, bound), &c.edb, &RunOpts::default()).ok()?.set();
    Some((got, want))
}

/// Bound queries in the handler's form on the derived relations of recursive programs, against
/// the same reference model.
fn bound_queries(ctx: &mut Ctx, k: u64, r: &mut crate::rng::Rng, p: &GenProgram, _model: &refdl::Model) {
    if !p.tags.iter().any(|t| ["rec_self", "rec_mutual"].contains(t)) {
        return;
    }
    let mut idb: Vec<(String, usize)> = Vec::new();
    for c in p.clauses.iter().filter(|c| c.head != "q" && !c.has_agg()) {
        if !idb.iter().any(|(h, _)| h == &c.head) {
            idb.push((c.head.clone(), c.hargs.len()));
        }
    }
    for (h, ar) in idb.iter().take(2) {
        let mut bound: Vec<(usize, i64)> = vec![(r.below(*ar), r.range(0, 4))];
        if *ar > 1 && r.chance(1, 4) {
            let p2 = r.below(*ar);
            if p2 != bound[0].0 {
                bound.push((p2, r.range(0, 4)));
            }
        }
        let Some((got, want)) = bound_outcome(p, h, &bound) else {
            ctx.count("bound_query_rejected");
            continue;
        };
        ctx.eval();
        ctx.count("bound_queries");
        if !want.is_empty() {
            ctx.count("bound_queries_nonempty");
        }
        if got != want {
            let small = shrink(p, |c| matches!(bound_outcome(c, h, &bound), Some((g, w)) if g != w), 300);
            let (g, w) = bound_outcome(&small, h, &bound).unwrap_or((got.clone(), want.clone()));
            let mut f: Vec<&str> = features(&small).into_iter().filter(|x| ["mutual-recursion", "self-recursion", "negation"].contains(x)).collect();
            f.sort();
            ctx.violation(
                k,
                &format!("C01:bound-query:{}:{}", f.join("+"), diff_kind(&g, &w)),
                format!("`?{h}(..)` with bound arguments {bound:?} differs from the stratified least model ({})", diff_kind(&g, &w)),
                json!({"minimised": small.to_json(), "relation": h, "bound": format!("{bound:?}"), "engine": rel_json(&g), "reference": rel_json(&w), "original": p.to_json()}),
            );
        }
    }
}
