//! C32 — relations are sets and write reports are accurate (oracle: set model).

use crate::ctx::{Ctx, Meta};
use crate::hnd::{messages, H};
use crate::store::*;
use serde_json::json;
use std::collections::{BTreeMap, BTreeSet};

pub static META: Meta = Meta {
    id: "C32",
    level: "exploration",
    rule: "histories of 20-60 writes on relations r/2 and s/1 over the domain {0..4} (every third history: domain {0..11} with r pre-loaded to 40-70 tuples), mixing the storage API (insert_tuples_into / delete_tuples_from with in-batch duplicates, present and absent tuples) and handler statements (+r(..), +r[..], -r(..), conditional deletes with comparisons / joins / negation, update statements); after every step the dump must be duplicate-free and equal to the set model, the reported new/deleted counts must equal the model's, and every few steps a query must return the model; distinct = history; non-trivial = history has >= 10 effective writes",
    assumptions: &["conditions of conditional deletes/updates are drawn from 8 templates whose semantics the harness evaluates itself", "for updates the inserted count may be the number of new tuples, of distinct inserted tuples or of bindings (the property leaves it open)"],
    floor: 30,
    watchdog: (0, 0),
};

type Rel = BTreeSet<Vec<i64>>;
type Model = BTreeMap<&'static str, Rel>;

fn cmp_ok(op: &str, a: i64, b: i64) -> bool {
    match op {
        "<" => a < b,
        "<=" => a <= b,
        ">" => a > b,
        ">=" => a >= b,
        "=" => a == b,
        _ => a != b,
    }
}

fn first_number_after(msg: &str, key: &str) -> Option<i64> {
    let i = msg.find(key)? + key.len();
    let digits: String = msg[i..].chars().skip_while(|c| !c.is_ascii_digit()).take_while(char::is_ascii_digit).collect();
    digits.parse().ok()
}

fn lit(t: &[i64]) -> String {
    format!("({})", t.iter().map(|x| x.to_string()).collect::<Vec<_>>().join(", "))
}

pub fn run(ctx: &mut Ctx) {
    let total = ctx.sz(160, 3200);
    for k in ctx.cases(total) {
        let mut r = ctx.rng(k);
        let scratch = Scratch::new("c32");
        let o = StoreOpts { buffer_size: *r.pick(&[1usize, 3, 10_000]), ..Default::default() };
        let h = match H::open(&scratch.path, &o) {
            Ok(h) => h,
            Err(e) => {
                ctx.inconclusive(format!("case {k}: {e}"));
                continue;
            }
        };
        let mut m: Model = BTreeMap::new();
        m.insert("r", Rel::new());
        m.insert("s", Rel::new());
        let steps = 20 + r.below(41);
        // every third history works on large relations (a 12x12 domain, pre-loaded with ~40-70 tuples):
        // size-dependent code paths (indexes, thresholds) only show there
        let dom: i64 = if k % 3 == 0 { 11 } else { 4 };
        let mut hist: Vec<String> = Vec::new();
        let mut effective = 0;
        if dom > 4 {
            let pre: Vec<Vec<i64>> = (0..(40 + r.below(40))).map(|_| vec![r.range(0, dom), r.range(0, dom)]).collect();
            hist.push(format!("api insert r (preload of {} tuples)", pre.len()));
            let _ = h.h.get_storage().insert_tuples_into("default", "r", pre.iter().map(|t| ituple(t)).collect());
            m.get_mut("r").unwrap().extend(pre);
        }
        let mut failed = false;
        ctx.eval();
        for step in 0..steps {
            let rel: &'static str = if r.chance(2, 3) { "r" } else { "s" };
            let ar = if rel == "r" { 2 } else { 1 };
            let mk = |r: &mut crate::rng::Rng| -> Vec<i64> { (0..ar).map(|_| r.range(0, dom)).collect() };
            let kind = r.below(12);
            let mut problem: Option<(String, String)> = None; // (class, what)
            match kind {
                0 | 1 => {
                    // storage-level insert with in-batch duplicates
                    let mut b: Vec<Vec<i64>> = (0..(1 + r.below(4))).map(|_| mk(&mut r)).collect();
                    if r.chance(1, 3) {
                        b.push(b[0].clone());
                    }
                    hist.push(format!("api insert {rel} {b:?}"));
                    let want_new = b.iter().collect::<BTreeSet<_>>().iter().filter(|t| !m[rel].contains(**t)).count();
                    let res = h.h.get_storage().insert_tuples_into("default", rel, b.iter().map(|t| ituple(t)).collect());
                    match res {
                        Ok((new, _dup)) => {
                            if new != want_new {
                                problem = Some(("engine:insert:new-count".into(), format!("insert_tuples_into reported {new} new tuples, model says {want_new}")));
                            }
                            m.get_mut(rel).unwrap().extend(b);
                            effective += want_new;
                        }
                        Err(e) => problem = Some(("engine:insert:error".into(), format!("{e}"))),
                    }
                }
                2 => {
                    let b: Vec<Vec<i64>> = (0..(1 + r.below(3))).map(|_| if !m[rel].is_empty() && r.chance(2, 3) { m[rel].iter().nth(r.below(m[rel].len())).unwrap().clone() } else { mk(&mut r) }).collect();
                    hist.push(format!("api delete {rel} {b:?}"));
                    let want = b.iter().collect::<BTreeSet<_>>().iter().filter(|t| m[rel].contains(**t)).count();
                    let res = h.h.get_storage().delete_tuples_from("default", rel, b.iter().map(|t| ituple(t)).collect());
                    match res {
                        Ok(n) => {
                            if n != want {
                                problem = Some(("engine:delete:count".into(), format!("delete_tuples_from reported {n}, model says {want}")));
                            }
                            for t in &b {
                                m.get_mut(rel).unwrap().remove(t);
                            }
                            effective += want;
                        }
                        Err(e) => problem = Some(("engine:delete:error".into(), format!("{e}"))),
                    }
                }
                3 | 4 | 5 => {
                    // handler insert: single or bulk
                    let mut b: Vec<Vec<i64>> = (0..(1 + r.below(4))).map(|_| mk(&mut r)).collect();
                    if r.chance(1, 3) {
                        b.push(b[0].clone());
                    }
                    let stmt = if b.len() == 1 && r.chance(1, 2) { format!("+{rel}{}", lit(&b[0])) } else { format!("+{rel}[{}]", b.iter().map(|t| lit(t)).collect::<Vec<_>>().join(", ")) };
                    hist.push(stmt.clone());
                    let want_new = b.iter().collect::<BTreeSet<_>>().iter().filter(|t| !m[rel].contains(**t)).count() as i64;
                    match h.exec("default", &stmt) {
                        Ok(res) => {
                            let msg = messages(&res).join(" | ");
                            match first_number_after(&msg, "Inserted") {
                                Some(n) if n == want_new => {}
                                Some(n) => problem = Some(("handler:insert:new-count".into(), format!("message says {n} inserted, model says {want_new}: {msg}"))),
                                None => problem = Some(("handler:insert:unexpected-message".into(), msg)),
                            }
                            m.get_mut(rel).unwrap().extend(b);
                            effective += want_new as usize;
                        }
                        Err(e) => problem = Some(("handler:insert:error".into(), e)),
                    }
                }
                6 => {
                    let t = if !m[rel].is_empty() && r.chance(2, 3) { m[rel].iter().nth(r.below(m[rel].len())).unwrap().clone() } else { mk(&mut r) };
                    let stmt = format!("-{rel}{}", lit(&t));
                    hist.push(stmt.clone());
                    let want = i64::from(m[rel].contains(&t));
                    match h.exec("default", &stmt) {
                        Ok(res) => {
                            let msg = messages(&res).join(" | ");
                            match first_number_after(&msg, "Deleted") {
                                Some(n) if n == want => {}
                                Some(n) => problem = Some(("handler:delete:count".into(), format!("message says {n} deleted, model says {want}: {msg}"))),
                                None => problem = Some(("handler:delete:unexpected-message".into(), msg)),
                            }
                            m.get_mut(rel).unwrap().remove(&t);
                            effective += want as usize;
                        }
                        Err(e) => problem = Some(("handler:delete:error".into(), e)),
                    }
                }
                7 | 8 | 9 => {
                    // conditional delete templates
                    let c = r.range(0, 4);
                    let op = *r.pick(&["<", "<=", ">", ">=", "=", "!="]);
                    let tpl = r.below(6);
                    let (stmt, target, doomed): (String, &'static str, Rel) = match tpl {
                        0 => (format!("-r(X, Y) <- r(X, Y), X {op} {c}"), "r", m["r"].iter().filter(|t| cmp_ok(op, t[0], c)).cloned().collect()),
                        1 => (format!("-r(X, Y) <- r(X, Y), X {op} Y"), "r", m["r"].iter().filter(|t| cmp_ok(op, t[0], t[1])).cloned().collect()),
                        2 => ("-s(X) <- s(X), r(X, _)".to_string(), "s", m["s"].iter().filter(|t| m["r"].iter().any(|u| u[0] == t[0])).cloned().collect()),
                        3 => ("-r(X, Y) <- r(X, Y), s(Y)".to_string(), "r", m["r"].iter().filter(|t| m["s"].contains(&vec![t[1]])).cloned().collect()),
                        4 => ("-r(X, Y) <- r(X, Y), !s(X)".to_string(), "r", m["r"].iter().filter(|t| !m["s"].contains(&vec![t[0]])).cloned().collect()),
                        _ => (format!("-s(X) <- s(X), X {op} {c}"), "s", m["s"].iter().filter(|t| cmp_ok(op, t[0], c)).cloned().collect()),
                    };
                    // the engine rejects a condition over a relation that does not exist yet; skip those
                    if (stmt.contains("s(") && m["s"].is_empty()) || (stmt.contains("r(") && m["r"].is_empty()) {
                        continue;
                    }
                    hist.push(stmt.clone());
                    match h.exec("default", &stmt) {
                        Ok(res) => {
                            let msg = messages(&res).join(" | ");
                            match first_number_after(&msg, "Conditional delete") {
                                Some(n) if n == doomed.len() as i64 => {}
                                Some(n) => problem = Some((format!("handler:conditional-delete:count:t{tpl}"), format!("message says {n} deleted, model says {}: {msg}", doomed.len()))),
                                None => problem = Some((format!("handler:conditional-delete:unexpected-message:t{tpl}"), msg)),
                            }
                            effective += doomed.len();
                            for t in &doomed {
                                m.get_mut(target).unwrap().remove(t);
                            }
                        }
                        Err(e) => problem = Some((format!("handler:conditional-delete:error:t{tpl}"), e)),
                    }
                }
                _ => {
                    // update templates
                    let c = r.range(0, 4);
                    let kk = r.range(0, 4);
                    let op = *r.pick(&["<", "<=", ">", ">=", "=", "!="]);
                    let tpl = r.below(3);
                    let (stmt, target, del, ins): (String, &'static str, Rel, Vec<Vec<i64>>) = match tpl {
                        0 => {
                            let d: Rel = m["r"].iter().filter(|t| cmp_ok(op, t[1], kk)).cloned().collect();
                            let i = d.iter().map(|t| vec![t[0], c]).collect();
                            (format!("-r(X, Y), +r(X, {c}) <- r(X, Y), Y {op} {kk}"), "r", d, i)
                        }
                        1 => {
                            let d: Rel = m["r"].iter().filter(|t| t[0] < t[1]).cloned().collect();
                            let i = d.iter().map(|t| vec![t[1], t[0]]).collect();
                            ("-r(X, Y), +r(Y, X) <- r(X, Y), X < Y".to_string(), "r", d, i)
                        }
                        _ => {
                            let d: Rel = m["s"].iter().filter(|t| cmp_ok(op, t[0], kk)).cloned().collect();
                            let i = d.iter().map(|_| vec![c]).collect();
                            (format!("-s(X), +s({c}) <- s(X), X {op} {kk}"), "s", d, i)
                        }
                    };
                    if m[target].is_empty() {
                        continue;
                    }
                    hist.push(stmt.clone());
                    let after: Rel = m[target].difference(&del).cloned().chain(ins.iter().cloned()).collect();
                    let ins_set: Rel = ins.iter().cloned().collect();
                    let survivors: Rel = m[target].difference(&del).cloned().collect();
                    let accepted_ins: BTreeSet<i64> = [ins.len() as i64, ins_set.len() as i64, ins_set.difference(&survivors).count() as i64].into_iter().collect();
                    match h.exec("default", &stmt) {
                        Ok(res) => {
                            let msg = messages(&res).join(" | ");
                            let d = first_number_after(&msg, "Update:");
                            let i = msg.find("deleted").and_then(|p| first_number_after(&msg[p..], "deleted"));
                            match (d, i) {
                                (Some(d), Some(i)) => {
                                    if d != del.len() as i64 {
                                        problem = Some((format!("handler:update:deleted-count:t{tpl}"), format!("message says {d} deleted, model says {}: {msg}", del.len())));
                                    } else if !accepted_ins.contains(&i) {
                                        problem = Some((format!("handler:update:inserted-count:t{tpl}"), format!("message says {i} inserted, acceptable {accepted_ins:?}: {msg}")));
                                    }
                                }
                                _ => problem = Some((format!("handler:update:unexpected-message:t{tpl}"), msg)),
                            }
                            effective += del.len();
                            *m.get_mut(target).unwrap() = after;
                        }
                        Err(e) => problem = Some((format!("handler:update:error:t{tpl}"), e)),
                    }
                }
            }
            // state check after every step
            if problem.is_none() {
                match dump_facts(&h.h.get_storage(), "default") {
                    Err(e) => problem = Some(("dump:error".into(), e)),
                    Ok(f) => {
                        if let Some((rl, t)) = duplicate_in(&f) {
                            problem = Some(("state:duplicate-tuple".into(), format!("relation {rl} holds {t} twice")));
                        } else {
                            for rl in ["r", "s"] {
                                let got: Rel = f.get(rl).map(|v| v.iter().map(|t| t.values().iter().map(|x| x.as_i64().unwrap_or(i64::MIN)).collect()).collect()).unwrap_or_default();
                                if got != m[rl] {
                                    let last = hist.last().cloned().unwrap_or_default();
                                    let opk = if last.starts_with("api") { "api" } else if last.contains("<-") && last.contains(", +") { "update" } else if last.contains("<-") { "conditional-delete" } else if last.starts_with('+') { "insert" } else { "delete" };
                                    problem = Some((format!("state:{opk}:differs-from-set-model"), format!("relation {rl} is {got:?}, model says {:?}", m[rl])));
                                    break;
                                }
                            }
                        }
                    }
                }
            }
            if problem.is_none() && step % 7 == 6 {
                // the query path must see the same set
                if let Ok(res) = h.exec("default", "?r(X, Y)") {
                    let got: BTreeSet<String> = crate::hnd::rows_str(&res).into_iter().collect();
                    let want: BTreeSet<String> = m["r"].iter().map(|t| lit(t)).collect();
                    if !m["r"].is_empty() && (got != want || res.rows.len() != want.len()) {
                        problem = Some(("query:differs-from-set-model".into(), format!("?r returned {:?}, model {:?}", crate::hnd::rows_str(&res), want)));
                    }
                }
            }
            if let Some((class, what)) = problem {
                ctx.violation(k, &format!("C32:{class}"), what, json!({"history": hist, "buffer_size": o.buffer_size, "step": step}));
                failed = true;
                break;
            }
        }
        if !failed && effective >= 10 {
            ctx.nontrivial(crate::rng::hash_str(&hist.join(";")));
            if k % 16 == 0 {
                ctx.sample(json!({"history_head": hist.iter().take(10).collect::<Vec<_>>(), "steps": hist.len(), "effective_writes": effective}));
            }
        }
        ctx.count_n("steps", hist.len() as u64);
        h.h.shutdown();
    }
}
