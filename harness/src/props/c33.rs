//! C33 — declared schemas are enforced on every write path (oracle: conformance re-implemented here).

use crate::ctx::{Ctx, Meta};
use crate::hnd::{messages, rows_str, H};
use crate::store::*;
use inputlayer::Value;
use serde_json::json;

pub static META: Meta = Meta {
    id: "C33",
    level: "exploration",
    rule: "random schemas (1-3 columns over int/float/string/bool/vector/vector(2)) x histories of 8-20 writes through every write path: +r(..), +r[..] (batches with 0 or 1 non-conforming tuple at a random position), update statements whose inserted literal conforms or not, request-local session facts, WebSocket-style session facts, and schemas declared after data exists; after every step every tuple visible in the relation (dump, and the session's query answer) must conform, a batch with a non-conforming tuple must leave the relation unchanged, and a conforming batch must be stored; distinct = schema+history; non-trivial = at least one accepted and one rejected write",
    assumptions: &["conformance: int<-integer, float<-float|integer, string<-string, bool<-bool, vector<-vector, vector(2)<-vector of dimension 2 (docs/spec/types.md and the validator's own acceptance of 1 for float)"],
    floor: 30,
    watchdog: (0, 0),
};

const TYPES: [&str; 6] = ["int", "float", "string", "bool", "vector", "vector(2)"];

#[derive(Clone, Debug, PartialEq)]
enum Lit {
    I(i64),
    F(f64),
    S(String),
    B(bool),
    V(Vec<f32>),
}
impl Lit {
    fn text(&self) -> String {
        match self {
            Lit::I(i) => i.to_string(),
            Lit::F(f) => format!("{f:?}"),
            Lit::S(s) => format!("{s:?}"),
            Lit::B(b) => b.to_string(),
            Lit::V(v) => format!("[{}]", v.iter().map(|x| format!("{x:?}")).collect::<Vec<_>>().join(", ")),
        }
    }
    fn conforms(&self, ty: &str) -> bool {
        if let (Lit::V(v), "vector(2)") = (self, ty) {
            return v.len() == 2;
        }
        matches!((self, ty), (Lit::I(_), "int") | (Lit::I(_), "float") | (Lit::F(_), "float") | (Lit::S(_), "string") | (Lit::B(_), "bool") | (Lit::V(_), "vector"))
    }
}
fn value_conforms(v: &Value, ty: &str) -> bool {
    if let (Value::Vector(x), "vector(2)") = (v, ty) {
        return x.len() == 2;
    }
    matches!((v, ty), (Value::Int32(_) | Value::Int64(_), "int") | (Value::Int32(_) | Value::Int64(_) | Value::Float64(_), "float") | (Value::String(_), "string") | (Value::Bool(_), "bool") | (Value::Vector(_), "vector"))
}
fn gen_lit(r: &mut crate::rng::Rng, ty: &str) -> Lit {
    match ty {
        "int" => Lit::I(r.range(-3, 9)),
        "float" => {
            if r.chance(1, 4) {
                Lit::I(r.range(0, 5))
            } else {
                Lit::F(r.range(-8, 8) as f64 + 0.5)
            }
        }
        "string" => Lit::S(r.pick(&["a", "b", "hello world", "x1"]).to_string()),
        "bool" => Lit::B(r.chance(1, 2)),
        "vector" => Lit::V((0..(1 + r.below(3))).map(|_| r.range(0, 4) as f32 + 0.25).collect()),
        _ => Lit::V((0..2).map(|_| r.range(0, 4) as f32 + 0.25).collect()),
    }
}
fn gen_bad(r: &mut crate::rng::Rng, ty: &str) -> Lit {
    if ty == "vector(2)" && r.chance(2, 3) {
        // right kind, wrong dimension
        let n = *r.pick(&[1usize, 3, 4]);
        return Lit::V((0..n).map(|_| r.range(0, 4) as f32 + 0.25).collect());
    }
    loop {
        let other = *r.pick(&TYPES);
        let l = gen_lit(r, other);
        if !l.conforms(ty) {
            return l;
        }
    }
}
fn tuple_text(t: &[Lit]) -> String {
    format!("({})", t.iter().map(Lit::text).collect::<Vec<_>>().join(", "))
}

pub fn run(ctx: &mut Ctx) {
    let total = ctx.sz(160, 3200);
    for k in ctx.cases(total) {
        let mut r = ctx.rng(k);
        let scratch = Scratch::new("c33");
        let h = match H::open(&scratch.path, &StoreOpts::default()) {
            Ok(h) => h,
            Err(e) => {
                ctx.inconclusive(format!("case {k}: {e}"));
                continue;
            }
        };
        let ncols = 1 + r.below(3);
        let cols: Vec<&str> = (0..ncols).map(|_| *r.pick(&TYPES)).collect();
        let decl = format!("+r({})", cols.iter().enumerate().map(|(i, t)| format!("c{i}: {t}")).collect::<Vec<_>>().join(", "));
        let mut hist: Vec<String> = Vec::new();
        let late_schema = r.chance(1, 5);
        let mut problem: Option<(String, String)> = None;
        let (mut accepted, mut rejected) = (0u32, 0u32);
        let conform_all = |h: &H, cols: &[&str]| -> Option<String> {
            let f = dump_facts(&h.h.get_storage(), "default").ok()?;
            for t in f.get("r").cloned().unwrap_or_default() {
                if t.arity() != cols.len() || !t.values().iter().zip(cols).all(|(v, ty)| value_conforms(v, ty)) {
                    return Some(tuple_str(&t));
                }
            }
            None
        };
        ctx.eval();
        if late_schema {
            // data first (possibly non-conforming), schema afterwards
            let good = r.chance(1, 2);
            let t: Vec<Lit> = cols.iter().enumerate().map(|(i, ty)| if !good && i == 0 { gen_bad(&mut r, ty) } else { gen_lit(&mut r, ty) }).collect();
            let stmt = format!("+r{}", tuple_text(&t));
            hist.push(stmt.clone());
            let _ = h.exec("default", &stmt);
        }
        hist.push(decl.clone());
        match h.exec("default", &decl) {
            Ok(res) => {
                let msg = messages(&res).join(" | ");
                if msg.contains("registered") {
                    if let Some(t) = conform_all(&h, &cols) {
                        problem = Some(("schema-declared-over-nonconforming-data".into(), format!("schema accepted although stored tuple {t} does not conform")));
                    }
                } else {
                    // declaration refused (e.g. existing data conflicts): nothing to enforce in this case
                    ctx.count("schema_declaration_refused");
                    continue;
                }
            }
            Err(e) => {
                ctx.inconclusive(format!("case {k}: schema declaration failed: {e}"));
                continue;
            }
        }
        let sid = h.h.create_session("default").ok();
        let steps = 8 + r.below(13);
        let mut reported: std::collections::BTreeSet<String> = Default::default();
        let mut any_violation = false;
        for _ in 0..steps {
            if let Some((class, what)) = problem.take() {
                // record once per class and case, repair the relation (drop non-conforming tuples through
                // the storage API) and carry on with the history so that one defect does not hide the rest
                any_violation = true;
                if reported.insert(class.clone()) {
                    ctx.violation(k, &format!("C33:{class}"), what, json!({"schema": decl, "history": hist}));
                }
                if let Ok(f) = dump_facts(&h.h.get_storage(), "default") {
                    let bad: Vec<inputlayer::Tuple> = f.get("r").cloned().unwrap_or_default().into_iter().filter(|t| t.arity() != cols.len() || !t.values().iter().zip(&cols).all(|(v, ty)| value_conforms(v, ty))).collect();
                    if !bad.is_empty() {
                        let _ = h.h.get_storage().delete_tuples_from("default", "r", bad);
                    }
                }
            }
            let before = dump_facts(&h.h.get_storage(), "default").map(|f| f.get("r").cloned().unwrap_or_default()).unwrap_or_default();
            let path = r.below(10);
            let n = if path < 3 { 1 } else { 1 + r.below(4) };
            let bad_at = if r.chance(2, 5) { Some(r.below(n)) } else { None };
            let batch: Vec<Vec<Lit>> = (0..n)
                .map(|i| {
                    let badcol = r.below(ncols);
                    cols.iter().enumerate().map(|(c, ty)| if bad_at == Some(i) && c == badcol { gen_bad(&mut r, ty) } else { gen_lit(&mut r, ty) }).collect()
                })
                .collect();
            let all_ok = bad_at.is_none();
            match path {
                0..=5 => {
                    let stmt = if n == 1 && path < 3 { format!("+r{}", tuple_text(&batch[0])) } else { format!("+r[{}]", batch.iter().map(|t| tuple_text(t)).collect::<Vec<_>>().join(", ")) };
                    hist.push(stmt.clone());
                    match h.exec("default", &stmt) {
                        Ok(res) => {
                            let msg = messages(&res).join(" | ");
                            let after = dump_facts(&h.h.get_storage(), "default").map(|f| f.get("r").cloned().unwrap_or_default()).unwrap_or_default();
                            if all_ok {
                                if !msg.contains("Inserted") {
                                    problem = Some(("conforming-insert-rejected".into(), format!("{stmt} -> {msg}")));
                                } else if after.len() < before.len() {
                                    problem = Some(("conforming-insert-lost-data".into(), stmt.clone()));
                                }
                                accepted += 1;
                            } else {
                                if after != before {
                                    problem = Some(("nonconforming-batch-partly-applied".into(), format!("{stmt} changed the relation from {} to {} tuples ({msg})", before.len(), after.len())));
                                } else if msg.contains("Inserted") && !msg.contains("Inserted 0") {
                                    problem = Some(("nonconforming-batch-reported-inserted".into(), format!("{stmt} -> {msg}")));
                                }
                                rejected += 1;
                            }
                        }
                        Err(e) => {
                            if all_ok {
                                problem = Some(("conforming-insert-rejected".into(), format!("{stmt} -> Err {e}")));
                            } else {
                                rejected += 1;
                            }
                        }
                    }
                }
                6 | 7 => {
                    // update path: replace column `c` of every tuple by a literal
                    if before.is_empty() {
                        continue;
                    }
                    let c = r.below(ncols);
                    let good = r.chance(1, 2);
                    let l = if good { gen_lit(&mut r, cols[c]) } else { gen_bad(&mut r, cols[c]) };
                    let vars: Vec<String> = (0..ncols).map(|i| format!("X{i}")).collect();
                    let mut newargs = vars.clone();
                    newargs[c] = l.text();
                    let stmt = format!("-r({v}), +r({n}) <- r({v})", v = vars.join(", "), n = newargs.join(", "));
                    hist.push(stmt.clone());
                    let res = h.exec("default", &stmt);
                    let after = dump_facts(&h.h.get_storage(), "default").map(|f| f.get("r").cloned().unwrap_or_default()).unwrap_or_default();
                    if !good {
                        rejected += 1;
                        if after != before {
                            if let Some(t) = conform_all(&h, &cols) {
                                problem = Some(("update-path-skips-validation".into(), format!("{stmt} stored non-conforming tuple {t}")));
                            } else {
                                problem = Some(("nonconforming-update-partly-applied".into(), format!("{stmt} changed the relation although its insert does not conform ({res:?})").chars().take(300).collect()));
                            }
                        }
                    } else {
                        accepted += 1;
                    }
                }
                _ => {
                    // session facts: request-local (fact + query in one program) or WS-style session
                    let t = &batch[0];
                    let good = t.iter().zip(&cols).all(|(l, ty)| l.conforms(ty));
                    let vars: Vec<String> = (0..ncols).map(|i| format!("X{i}")).collect();
                    let q = format!("?r({})", vars.join(", "));
                    let fact = format!("r{}", tuple_text(t));
                    let (label, res) = if path == 8 || sid.is_none() {
                        hist.push(format!("{fact} ; {q}   (one request)"));
                        ("request-local", h.exec("default", &format!("{fact}\n{q}")))
                    } else {
                        hist.push(format!("{fact} ; {q}   (session)"));
                        let _ = h.exec_as(sid.as_ref(), None, &fact, None);
                        ("ws-session", h.exec_as(sid.as_ref(), None, &q, None))
                    };
                    if let Ok(res) = res {
                        if !good {
                            rejected += 1;
                            // the non-conforming literal must not be visible as a tuple of r
                            let shown = rows_str(&res);
                            let needle: Vec<String> = t.iter().map(|l| match l { Lit::I(i) => i.to_string(), Lit::F(f) => format!("{f:?}f"), Lit::S(s) => format!("{s:?}"), Lit::B(b) => b.to_string(), Lit::V(v) => format!("{v:?}") }).collect();
                            let row = format!("({})", needle.join(", "));
                            if shown.contains(&row) {
                                problem = Some((format!("session-fact:{label}:skips-validation"), format!("non-conforming session fact {fact} is returned as a tuple of r: {shown:?}")));
                            }
                        } else {
                            accepted += 1;
                        }
                    }
                    // session facts must never reach the persistent relation
                    let after = dump_facts(&h.h.get_storage(), "default").map(|f| f.get("r").cloned().unwrap_or_default()).unwrap_or_default();
                    if problem.is_none() && after != before {
                        problem = Some((format!("session-fact:{label}:changed-persistent-relation"), fact));
                    }
                }
            }
            if problem.is_none() {
                if let Some(t) = conform_all(&h, &cols) {
                    problem = Some(("stored-tuple-does-not-conform".into(), format!("after `{}` the relation holds {t}", hist.last().cloned().unwrap_or_default())));
                }
            }
        }
        if let Some((class, what)) = problem.take() {
            any_violation = true;
            if reported.insert(class.clone()) {
                ctx.violation(k, &format!("C33:{class}"), what, json!({"schema": decl, "history": hist}));
            }
        }
        let _ = any_violation;
        {
            {
                if accepted > 0 && rejected > 0 {
                    ctx.nontrivial(crate::rng::hash_str(&hist.join(";")));
                    if k % 20 == 0 {
                        ctx.sample(json!({"schema": decl, "history": hist.iter().take(8).collect::<Vec<_>>(), "accepted": accepted, "rejected": rejected}));
                    }
                }
            }
        }
        h.h.shutdown();
    }
}
