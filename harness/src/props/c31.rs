//! C31 — Value/Tuple comparison is a total order consistent with equality and hashing.
//! Oracle: the order/equality/hash laws themselves, exhaustively over all triples of a finite
//! domain of representative values of every kind, plus random tuples and the downstream users
//! (sort+dedup, consolidate_to_current) against a hash-multiset model.

use crate::ctx::{Ctx, Meta};
use inputlayer::storage::persist::{consolidate, consolidate_to_current, Update};
use inputlayer::{Tuple, Value};
use serde_json::json;
use std::cmp::Ordering;
use std::collections::hash_map::DefaultHasher;
use std::collections::HashMap;
use std::hash::{Hash, Hasher};
use std::sync::Arc;

pub static META: Meta = Meta {
    id: "C31",
    level: "exploration",
    rule: "exhaustive over all ordered triples of a fixed domain of representative Values of every kind (ints of both widths with equal magnitudes, floats 0.0/-0.0/NaN with two payloads/inf/subnormal, strings, bools, null, timestamps, vectors incl. empty, equal-content and NaN-bearing ones): reflexivity, cmp==Equal <=> ==, == => equal hash, antisymmetry, transitivity; the same laws on random tuples (arity 0-3) over the domain; plus sort+dedup and consolidate/consolidate_to_current of random update lists against a HashMap multiset model; every triple is a distinct case, non-trivial when at least two of the three values differ",
    assumptions: &["std HashMap/Hash as the equality model; DefaultHasher for hash comparison"],
    floor: 1000,
    watchdog: (0, 0),
};

pub fn domain() -> Vec<Value> {
    let nan2 = f64::from_bits(0x7ff8_0000_0000_0001);
    let neg_nan = f64::from_bits(0xfff8_0000_0000_0000);
    let v = |x: Vec<f32>| Value::Vector(Arc::new(x));
    let vi = |x: Vec<i8>| Value::VectorInt8(Arc::new(x));
    vec![
        Value::Null,
        Value::Bool(false),
        Value::Bool(true),
        Value::Int32(0),
        Value::Int32(1),
        Value::Int32(-1),
        Value::Int32(i32::MAX),
        Value::Int32(i32::MIN),
        Value::Int64(0),
        Value::Int64(1),
        Value::Int64(-1),
        Value::Int64(i64::from(i32::MAX)),
        Value::Int64(i64::MAX),
        Value::Int64(i64::MIN),
        Value::Float64(0.0),
        Value::Float64(-0.0),
        Value::Float64(1.0),
        Value::Float64(-1.0),
        Value::Float64(1.5),
        Value::Float64(f64::NAN),
        Value::Float64(nan2),
        Value::Float64(neg_nan),
        Value::Float64(f64::INFINITY),
        Value::Float64(f64::NEG_INFINITY),
        Value::Float64(f64::MIN_POSITIVE / 4.0),
        Value::Float64(1e308),
        Value::Timestamp(0),
        Value::Timestamp(1),
        Value::Timestamp(-1),
        Value::Timestamp(i64::MAX),
        Value::string(""),
        Value::string("a"),
        Value::string("A"),
        Value::string("aa"),
        Value::string("b"),
        Value::string("\u{e9}"),
        Value::string("1"),
        Value::string("true"),
        v(vec![]),
        v(vec![0.0]),
        v(vec![-0.0]),
        v(vec![1.0]),
        v(vec![f32::NAN]),
        v(vec![1.0, 2.0]),
        v(vec![2.0, 1.0]),
        v(vec![1.0, 2.0, 3.0]),
        v(vec![-1.0]),
        vi(vec![]),
        vi(vec![0]),
        vi(vec![1]),
        vi(vec![-1]),
        vi(vec![1, 2]),
        vi(vec![2, 1]),
        vi(vec![127, -128]),
    ]
}

fn h<T: Hash>(x: &T) -> u64 {
    let mut s = DefaultHasher::new();
    x.hash(&mut s);
    s.finish()
}

fn kind(v: &Value) -> &'static str {
    match v {
        Value::Null => "Null",
        Value::Bool(_) => "Bool",
        Value::Int32(_) => "Int32",
        Value::Int64(_) => "Int64",
        Value::Float64(f) => {
            if f.is_nan() {
                "Float64(NaN)"
            } else if *f == 0.0 {
                "Float64(zero)"
            } else {
                "Float64"
            }
        }
        Value::String(_) => "String",
        Value::Vector(v) => {
            if v.iter().any(|x| x.is_nan()) {
                "Vector(NaN)"
            } else if v.iter().any(|x| *x == 0.0) {
                "Vector(zero)"
            } else {
                "Vector"
            }
        }
        Value::VectorInt8(_) => "VectorInt8",
        Value::Timestamp(_) => "Timestamp",
    }
}

/// first broken law on the pair / triple, as (law, description)
fn pair_law<T: Ord + Eq + Hash + std::fmt::Debug>(a: &T, b: &T) -> Option<(&'static str, String)> {
    let c = a.cmp(b);
    if (c == Ordering::Equal) != (a == b) {
        return Some(("cmp-equal-iff-eq", format!("{a:?} vs {b:?}: cmp={c:?} but == is {}", a == b)));
    }
    if a == b && h(a) != h(b) {
        return Some(("eq-implies-same-hash", format!("{a:?} == {b:?} but hashes differ")));
    }
    if b.cmp(a) != c.reverse() {
        return Some(("antisymmetry", format!("cmp({a:?},{b:?})={c:?} but cmp(b,a)={:?}", b.cmp(a))));
    }
    if a.partial_cmp(b) != Some(c) {
        return Some(("partial-cmp-agrees", format!("{a:?} vs {b:?}")));
    }
    None
}
fn triple_law<T: Ord + std::fmt::Debug>(a: &T, b: &T, c: &T) -> Option<(&'static str, String)> {
    if a.cmp(b) != Ordering::Greater && b.cmp(c) != Ordering::Greater && a.cmp(c) == Ordering::Greater {
        return Some(("transitivity", format!("{a:?} <= {b:?} <= {c:?} but a > c")));
    }
    if a.cmp(b) == Ordering::Equal && a.cmp(c) != b.cmp(c) {
        return Some(("equal-elements-order-alike", format!("{a:?} ~ {b:?} but they order differently against {c:?}")));
    }
    None
}

/// kinds of the values that take part in a value-level law violation among `vals` (the culprits);
/// all kinds when no pair of them breaks a law on its own
fn kinds_sig(vals: &[&Value]) -> String {
    let mut culprits: Vec<&Value> = Vec::new();
    for a in vals {
        if vals.iter().any(|b| pair_law(*a, *b).is_some()) {
            culprits.push(a);
        }
    }
    if culprits.is_empty() {
        for a in vals {
            for b in vals {
                if vals.iter().any(|c| triple_law(*a, *b, *c).is_some()) {
                    culprits.push(a);
                    culprits.push(b);
                }
            }
        }
    }
    let src: &[&Value] = if culprits.is_empty() { vals } else { &culprits };
    let mut k: Vec<&str> = src.iter().map(|v| kind(v)).collect();
    k.sort();
    k.dedup();
    k.join("/")
}

pub fn run(ctx: &mut Ctx) {
    let d = domain();
    let n = d.len();
    // ---- values: exhaustive pairs and triples (sharded by first index)
    for i in ctx.cases(n as u64) {
        let a = &d[i as usize];
        if let Some((law, what)) = pair_law(a, a) {
            ctx.violation(i, &format!("C31:value:{law}:{}", kind(a)), what, json!({"a": format!("{a:?}")}));
        }
        for (j, b) in d.iter().enumerate() {
            ctx.eval();
            if let Some((law, what)) = pair_law(a, b) {
                ctx.violation(i, &format!("C31:value:{law}:{}", kinds_sig(&[a, b])), what, json!({"a": format!("{a:?}"), "b": format!("{b:?}")}));
            }
            for (k, c) in d.iter().enumerate() {
                ctx.eval();
                if i as usize != j || j != k {
                    ctx.nontrivial((i << 32) | ((j as u64) << 16) | k as u64);
                }
                if let Some((law, what)) = triple_law(a, b, c) {
                    ctx.violation(i, &format!("C31:value:{law}:{}", kinds_sig(&[a, b, c])), what, json!({"a": format!("{a:?}"), "b": format!("{b:?}"), "c": format!("{c:?}")}));
                }
            }
        }
    }
    ctx.note("domain_size", json!(n));
    ctx.note("exhaustive_over_domain", json!(true));
    ctx.sample(json!({"triple": [format!("{:?}", d[14]), format!("{:?}", d[15]), format!("{:?}", d[19])]}));

    // ---- tuples: random triples of tuples over the domain
    let total = ctx.sz(20_000, 400_000);
    let mk = |r: &mut crate::rng::Rng, d: &[Value]| -> Tuple {
        let ar = r.below(4);
        Tuple::new((0..ar).map(|_| r.pick(d).clone()).collect())
    };
    let tsig = |ts: &[&Tuple]| -> String {
        let vals: Vec<&Value> = ts.iter().flat_map(|t| t.values().iter()).collect();
        kinds_sig(&vals)
    };
    for k in ctx.cases(total) {
        let mut r = ctx.rng(k);
        // bias towards tuples sharing a prefix so that the lexicographic tail decides
        let a = mk(&mut r, &d);
        let mut b = mk(&mut r, &d);
        let mut c = mk(&mut r, &d);
        if r.chance(1, 2) && a.arity() > 0 {
            let mut v = a.values().to_vec();
            let last = v.len() - 1;
            v[last] = r.pick(&d).clone();
            b = Tuple::new(v.clone());
            v[last] = r.pick(&d).clone();
            c = Tuple::new(v);
        }
        ctx.eval();
        ctx.nontrivial(crate::rng::hash_str(&format!("{a:?}{b:?}{c:?}")));
        if k < 2 {
            ctx.sample(json!({"tuples": [format!("{a:?}"), format!("{b:?}"), format!("{c:?}")]}));
        }
        for (x, y) in [(&a, &b), (&b, &c), (&a, &c), (&a, &a)] {
            if let Some((law, what)) = pair_law(x, y) {
                ctx.violation(k, &format!("C31:tuple:{law}:{}", tsig(&[x, y])), what, json!({"a": format!("{x:?}"), "b": format!("{y:?}")}));
            }
        }
        if let Some((law, what)) = triple_law(&a, &b, &c) {
            ctx.violation(k, &format!("C31:tuple:{law}:{}", tsig(&[&a, &b, &c])), what, json!({"a": format!("{a:?}"), "b": format!("{b:?}"), "c": format!("{c:?}")}));
        }
    }

    // ---- downstream: sort+dedup and consolidation against a hash multiset
    let total = ctx.sz(3_000, 60_000);
    for k in ctx.cases(total) {
        let mut r = ctx.rng(k ^ 0x5555_0000);
        // small sub-domain so that equal tuples and near-equal tuples (0.0/-0.0, NaNs) collide
        let sub: Vec<Value> = (0..(2 + r.below(5))).map(|_| r.pick(&d).clone()).collect();
        let len = 1 + r.below(24);
        let ups: Vec<Update> = (0..len)
            .map(|_| {
                let t = Tuple::new((0..(1 + r.below(2))).map(|_| r.pick(&sub).clone()).collect());
                let time = r.below(3) as u64;
                if r.chance(2, 3) {
                    Update::insert(t, time)
                } else {
                    Update::delete(t, time)
                }
            })
            .collect();
        ctx.eval();
        ctx.nontrivial(crate::rng::hash_str(&format!("{ups:?}")));
        // model: multiset by Eq/Hash
        let mut m: HashMap<Tuple, i64> = HashMap::new();
        let mut mt: HashMap<(Tuple, u64), i64> = HashMap::new();
        for u in &ups {
            *m.entry(u.data.clone()).or_insert(0) += u.diff;
            *mt.entry((u.data.clone(), u.time)).or_insert(0) += u.diff;
        }
        m.retain(|_, v| *v != 0);
        mt.retain(|_, v| *v != 0);
        let vals: Vec<&Value> = ups.iter().flat_map(|u| u.data.values().iter()).collect();
        let ks = kinds_sig(&vals);
        let mut cur = ups.clone();
        let res = crate::ctx::guarded(|| {
            consolidate_to_current(&mut cur);
            cur
        });
        match res {
            Err(e) => ctx.violation(k, &format!("C31:consolidate_to_current:panic:{ks}"), e, json!({"updates": format!("{ups:?}")})),
            Ok(cur) => {
                let mut got: HashMap<Tuple, i64> = HashMap::new();
                let mut dup = false;
                for u in &cur {
                    if got.insert(u.data.clone(), u.diff).is_some() {
                        dup = true;
                    }
                }
                if dup || got != m {
                    ctx.violation(k, &format!("C31:consolidate_to_current:{}:{ks}", if dup { "unmerged-equal-tuples" } else { "merged-unequal-or-wrong-sum" }), "consolidate_to_current disagrees with the Eq/Hash multiset of the updates".into(), json!({"updates": format!("{ups:?}"), "got": format!("{cur:?}"), "model": format!("{m:?}")}));
                }
            }
        }
        let mut byt = ups.clone();
        match crate::ctx::guarded(|| {
            consolidate(&mut byt);
            byt
        }) {
            Err(e) => ctx.violation(k, &format!("C31:consolidate:panic:{ks}"), e, json!({"updates": format!("{ups:?}")})),
            Ok(byt) => {
                let mut got: HashMap<(Tuple, u64), i64> = HashMap::new();
                let mut dup = false;
                for u in &byt {
                    if got.insert((u.data.clone(), u.time), u.diff).is_some() {
                        dup = true;
                    }
                }
                if dup || got != mt {
                    ctx.violation(k, &format!("C31:consolidate:{}:{ks}", if dup { "unmerged-equal-tuples" } else { "merged-unequal-or-wrong-sum" }), "consolidate disagrees with the Eq/Hash multiset of the (tuple,time) updates".into(), json!({"updates": format!("{ups:?}"), "got": format!("{byt:?}")}));
                }
            }
        }
        // sort + dedup must leave exactly the distinct tuples
        let mut ts: Vec<Tuple> = ups.iter().map(|u| u.data.clone()).collect();
        let distinct: std::collections::HashSet<Tuple> = ts.iter().cloned().collect();
        match crate::ctx::guarded(|| {
            ts.sort();
            ts.dedup();
            ts
        }) {
            Err(e) => ctx.violation(k, &format!("C31:sort-dedup:panic:{ks}"), e, json!({"updates": format!("{ups:?}")})),
            Ok(ts) => {
                if ts.len() != distinct.len() {
                    ctx.violation(k, &format!("C31:sort-dedup:wrong-distinct-count:{ks}"), format!("sort+dedup left {} tuples, {} are distinct", ts.len(), distinct.len()), json!({"tuples": format!("{ts:?}")}));
                }
            }
        }
    }
}
