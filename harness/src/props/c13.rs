//! C13 — acknowledged writes survive any crash and recovery always succeeds;
//! C16 — rule and schema catalogs are durable and crash-safe.
//! Both enumerate crash points of strace-recorded single-threaded histories (see crash.rs).

use crate::crash::*;
use crate::ctx::{Ctx, Meta};
use crate::store::Scratch;
use serde_json::{json, Value as J};
use std::collections::{BTreeMap, BTreeSet};

pub static META13: Meta = Meta {
    id: "C13",
    level: "fault_enumeration",
    rule: "single-threaded histories of 8-16 operations in immediate durability mode (inserts of 1-3 unique tuples, deletes of present tuples, save_all, save_knowledge_graph, compact_all, drop relation, create/drop KG, restart) with buffer_size in {1,2,3,10000} and max_wal_size in {default, 256 B}, recorded with strace; a crash image is materialised after EVERY file-system mutation of the store directory (open/truncate, write, rename, unlink, mkdir, rmdir; quick samples at most 160 per history) and the real StorageEngine::new recovers it in a fresh process: it must open, and its facts/KG list must equal the model state after k operations for some k between the number of operations acknowledged and the number begun before the crash point; thorough additionally cuts the last write short (torn-write lane, separate signatures); distinct = crash image content hash; non-trivial = image whose recovery differs from the previous image's or that lies inside an operation",
    assumptions: &["crash model A: every completed syscall is durable, nothing else is (process crash / power loss with ordered, journalled metadata)", "strace -f -y -xx records every mutation with full payload; histories whose log has unparsable relevant lines are inconclusive", "histories avoid duplicate inserts / absent deletes / mixed kinds so that C11/C12 behaviour cannot decide C13"],
    floor: 50,
    watchdog: (90_000, 240_000),
};
pub static META16: Meta = Meta {
    id: "C16",
    level: "fault_enumeration",
    rule: "single-threaded histories of 6-14 catalog operations (rule register incl. second clauses, rule drop, clear, remove-clause, schema register, schema remove, with a few fact inserts and a restart) on 1-2 KGs, recorded with strace; a crash image after EVERY file-system mutation is recovered by the real StorageEngine::new in a fresh process: it must open and its rule catalog (names and clause counts) and schema catalog must equal the model catalog after k operations for some k between acknowledged and begun; without a crash the catalogs after restart equal the acknowledged ones; thorough adds the torn-write lane; distinct = crash image hash; non-trivial = image taken inside a catalog operation",
    assumptions: &["crash model A as for C13", "rules are compared by name and number of clauses, schemas by name"],
    floor: 30,
    watchdog: (90_000, 240_000),
};

#[derive(Clone, Debug, Default, PartialEq)]
struct MKg {
    facts: BTreeMap<String, BTreeSet<i64>>,
    /// rule name -> number of clauses (a cleared rule stays listed with 0 clauses)
    rules: BTreeMap<String, usize>,
    schemas: BTreeSet<String>,
}
type Model = BTreeMap<String, MKg>;

fn model_apply(m: &mut Model, op: &J) {
    let kind = op["op"].as_str().unwrap_or("");
    let kg = op["kg"].as_str().unwrap_or("default").to_string();
    let rel = op["rel"].as_str().unwrap_or("r").to_string();
    let ids: Vec<i64> = op["ids"].as_array().map(|a| a.iter().filter_map(J::as_i64).collect()).unwrap_or_default();
    match kind {
        "insert" => {
            if let Some(k) = m.get_mut(&kg) {
                k.facts.entry(rel).or_default().extend(ids);
            }
        }
        "delete" => {
            if let Some(k) = m.get_mut(&kg) {
                if let Some(s) = k.facts.get_mut(&rel) {
                    for i in ids {
                        s.remove(&i);
                    }
                    if s.is_empty() {
                        k.facts.remove(&rel);
                    }
                }
            }
        }
        "create_kg" => {
            m.entry(kg).or_default();
        }
        "drop_kg" => {
            m.remove(&kg);
        }
        "drop_rel" => {
            if let Some(k) = m.get_mut(&kg) {
                k.facts.remove(&rel);
            }
        }
        "rule" => {
            if let Some(k) = m.get_mut(&kg) {
                let name = op["text"].as_str().unwrap_or("").split('(').next().unwrap_or("").trim().to_string();
                *k.rules.entry(name).or_insert(0) += 1;
            }
        }
        "drop_rule" => {
            if let Some(k) = m.get_mut(&kg) {
                k.rules.remove(op["name"].as_str().unwrap_or(""));
            }
        }
        "clear_rule" => {
            if let Some(k) = m.get_mut(&kg) {
                if let Some(n) = k.rules.get_mut(op["name"].as_str().unwrap_or("")) {
                    *n = 0;
                }
            }
        }
        "remove_clause" => {
            if let Some(k) = m.get_mut(&kg) {
                let name = op["name"].as_str().unwrap_or("");
                if let Some(n) = k.rules.get_mut(name) {
                    if *n > 1 {
                        *n -= 1;
                    } else {
                        k.rules.remove(name);
                    }
                }
            }
        }
        "schema" => {
            if let Some(k) = m.get_mut(&kg) {
                k.schemas.insert(op["name"].as_str().unwrap_or("s").to_string());
            }
        }
        "remove_schema" => {
            if let Some(k) = m.get_mut(&kg) {
                k.schemas.remove(op["name"].as_str().unwrap_or(""));
            }
        }
        _ => {}
    }
}

fn observed(d: &J) -> Model {
    let mut m = Model::new();
    for (kg, k) in d.as_object().cloned().unwrap_or_default() {
        let mut x = MKg::default();
        for (rel, ids) in k["facts"].as_object().cloned().unwrap_or_default() {
            let s: BTreeSet<i64> = ids.as_array().map(|a| a.iter().filter_map(J::as_i64).collect()).unwrap_or_default();
            if !s.is_empty() {
                x.facts.insert(rel, s);
            }
        }
        for (name, text) in k["rules"].as_object().cloned().unwrap_or_default() {
            x.rules.insert(name, text.as_str().unwrap_or("").matches("<-").count());
        }
        for s in k["schemas"].as_array().cloned().unwrap_or_default() {
            x.schemas.insert(s.as_str().unwrap_or("").to_string());
        }
        m.insert(kg, x);
    }
    m
}

/// project a model to what the property at hand speaks about
fn project(m: &Model, catalogs: bool) -> Model {
    m.iter()
        .map(|(k, v)| {
            (k.clone(), if catalogs { MKg { facts: BTreeMap::new(), ..v.clone() } } else { MKg { rules: BTreeMap::new(), schemas: BTreeSet::new(), ..v.clone() } })
        })
        .collect()
}

fn gen_history(r: &mut crate::rng::Rng, catalogs: bool) -> Vec<J> {
    let mut ops: Vec<J> = Vec::new();
    let mut m = Model::new();
    m.insert("default".into(), MKg::default());
    let mut next = 0i64;
    let n = if catalogs { 6 + r.below(9) } else { 8 + r.below(9) };
    let push = |ops: &mut Vec<J>, m: &mut Model, op: J| {
        model_apply(m, &op);
        ops.push(op);
    };
    if catalogs {
        push(&mut ops, &mut m, json!({"op": "insert", "ids": [1, 2], "rel": "r"}));
        if r.chance(1, 2) {
            push(&mut ops, &mut m, json!({"op": "create_kg", "kg": "k2"}));
        }
    }
    if !catalogs && r.chance(1, 3) {
        // directed shape: a relation with flushed batches AND later updates that live only in the WAL, then a
        // structural operation on it (drop of the relation / of its graph, compaction), then more writes
        let in_k2 = r.chance(1, 3);
        if in_k2 {
            push(&mut ops, &mut m, json!({"op": "create_kg", "kg": "k2"}));
        }
        let kg = if in_k2 { "k2" } else { "default" };
        let rel = *r.pick(&["r", "s"]);
        let mut ins = |ops: &mut Vec<J>, m: &mut Model, r: &mut crate::rng::Rng, next: &mut i64| {
            let cnt = 1 + r.below(3);
            let ids: Vec<i64> = (0..cnt).map(|_| { *next += 1; *next }).collect();
            model_apply(m, &json!({"op": "insert", "kg": kg, "rel": rel, "ids": ids}));
            ops.push(json!({"op": "insert", "kg": kg, "rel": rel, "ids": ids}));
        };
        ins(&mut ops, &mut m, r, &mut next);
        ins(&mut ops, &mut m, r, &mut next);
        push(&mut ops, &mut m, if r.chance(1, 2) { json!({"op": "save"}) } else { json!({"op": "save_kg", "kg": kg}) });
        ins(&mut ops, &mut m, r, &mut next);
        if r.chance(1, 2) {
            ins(&mut ops, &mut m, r, &mut next);
        }
        match r.below(4) {
            0 | 1 => push(&mut ops, &mut m, json!({"op": "drop_rel", "kg": kg, "rel": rel})),
            2 if in_k2 => push(&mut ops, &mut m, json!({"op": "drop_kg", "kg": "k2"})),
            _ => push(&mut ops, &mut m, json!({"op": "compact"})),
        }
    }
    while ops.len() < n {
        let kgs: Vec<String> = m.keys().cloned().collect();
        let kg = r.pick(&kgs).clone();
        let roll = r.below(if catalogs { 12 } else { 20 });
        if catalogs {
            let rules: Vec<String> = m[&kg].rules.keys().cloned().collect();
            let schemas: Vec<String> = m[&kg].schemas.iter().cloned().collect();
            match roll {
                0..=3 => {
                    let name = format!("v{}", r.below(3));
                    // every clause text is unique (a bound that differs), so clause counts are unambiguous
                    let body = format!("r(X, Y), Y > {}", 1000 + ops.len());
                    push(&mut ops, &mut m, json!({"op": "rule", "kg": kg, "text": format!("{name}(X) <- {body}")}));
                }
                4 if !rules.is_empty() => push(&mut ops, &mut m, json!({"op": "drop_rule", "kg": kg, "name": r.pick(&rules)})),
                5 if !rules.is_empty() => push(&mut ops, &mut m, json!({"op": "clear_rule", "kg": kg, "name": r.pick(&rules)})),
                6 if rules.iter().any(|n| m[&kg].rules[n] > 0) => {
                    let name = rules.iter().find(|n| m[&kg].rules[*n] > 0).cloned().unwrap_or_default();
                    push(&mut ops, &mut m, json!({"op": "remove_clause", "kg": kg, "name": name, "index": 0}));
                }
                7 | 8 => {
                    let name = format!("s{}", r.below(3));
                    push(&mut ops, &mut m, json!({"op": "schema", "kg": kg, "name": name, "cols": ["int", "string"]}));
                }
                9 if !schemas.is_empty() => push(&mut ops, &mut m, json!({"op": "remove_schema", "kg": kg, "name": r.pick(&schemas)})),
                10 => {
                    next += 1;
                    push(&mut ops, &mut m, json!({"op": "insert", "kg": kg, "rel": "r", "ids": [100 + next]}));
                }
                11 => push(&mut ops, &mut m, json!({"op": "restart"})),
                _ => {}
            }
        } else {
            let rel = *r.pick(&["r", "s"]);
            let present: Vec<i64> = m[&kg].facts.get(rel).map(|s| s.iter().copied().collect()).unwrap_or_default();
            match roll {
                0..=7 => {
                    let cnt = 1 + r.below(3);
                    let ids: Vec<i64> = (0..cnt).map(|_| { next += 1; next }).collect();
                    push(&mut ops, &mut m, json!({"op": "insert", "kg": kg, "rel": rel, "ids": ids}));
                }
                8..=10 if !present.is_empty() => {
                    let id = *r.pick(&present);
                    push(&mut ops, &mut m, json!({"op": "delete", "kg": kg, "rel": rel, "ids": [id]}));
                }
                11 | 12 => push(&mut ops, &mut m, json!({"op": "save"})),
                13 => push(&mut ops, &mut m, json!({"op": "save_kg", "kg": kg})),
                14 | 15 => push(&mut ops, &mut m, json!({"op": "compact"})),
                16 if !present.is_empty() => push(&mut ops, &mut m, json!({"op": "drop_rel", "kg": kg, "rel": rel})),
                17 if !m.contains_key("k2") => push(&mut ops, &mut m, json!({"op": "create_kg", "kg": "k2"})),
                18 if m.contains_key("k2") && kg == "k2" => push(&mut ops, &mut m, json!({"op": "drop_kg", "kg": "k2"})),
                19 => push(&mut ops, &mut m, json!({"op": "restart"})),
                _ => {}
            }
        }
    }
    ops
}

fn run_both(ctx: &mut Ctx, catalogs: bool) {
    let id = if catalogs { "C16" } else { "C13" };
    let total = ctx.sz(12, 240);
    let per_history_cap = ctx.sz(120, 100_000) as usize;
    let torn_lane = !ctx.quick();
    let (mut images, mut opened) = (0u64, 0u64);
    for k in ctx.cases(total) {
        let mut r = ctx.rng(k);
        let ops = gen_history(&mut r, catalogs);
        let spec = json!({"buffer_size": *r.pick(&[1u64, 2, 3, 10_000]), "max_wal": if r.chance(1, 3) { json!(256) } else { J::Null }, "ops": ops});
        let scratch = Scratch::new(if catalogs { "c16" } else { "c13" });
        let dir = scratch.path.join("data");
        let spec_path = scratch.path.join("spec.json");
        let _ = std::fs::write(&spec_path, spec.to_string());
        let log = match record(&dir, &spec_path, &scratch.path.join("strace.log")) {
            Ok(l) => l,
            Err(e) => {
                ctx.inconclusive(format!("case {k}: recording failed: {e}"));
                continue;
            }
        };
        let root = dir.to_string_lossy().to_string();
        let parsed = parse_strace(&log, &root);
        if parsed.unparsed_relevant > 0 {
            ctx.inconclusive(format!("case {k}: {} interleaved strace lines on store files (inconclusive)", parsed.unparsed_relevant));
            continue;
        }
        // sanity: replaying the whole log must reproduce what the workload left on disk (parser fidelity)
        let final_live = recover(&dir, &spec_path);
        // models after k ops (ops that reported ERR are no-ops)
        let errs: BTreeSet<usize> = parsed.muts.iter().filter_map(|m| if let Mut::Marker(s) = m { s.strip_prefix("ERR ").and_then(|x| x.split(' ').next()).and_then(|x| x.parse().ok()) } else { None }).collect();
        let mut models: Vec<Model> = Vec::new();
        let mut m = Model::new();
        m.insert("default".into(), MKg::default());
        models.push(m.clone());
        for (i, op) in ops.iter().enumerate() {
            if !errs.contains(&i) {
                model_apply(&mut m, op);
            }
            models.push(m.clone());
        }
        let want_final = project(models.last().unwrap(), catalogs);
        let got_final = project(&observed(&final_live["dump"]), catalogs);
        ctx.eval();
        if final_live["open"] != json!(true) || got_final != want_final {
            // no crash involved: the acknowledged state is not what a restart shows
            ctx.violation(k, &format!("{id}:no-crash:restart-differs-from-acknowledged-state"), format!("after the complete history a restart shows {got_final:?}, the acknowledged operations imply {want_final:?}"), json!({"ops": ops, "recovery": final_live}));
            continue;
        }
        // crash points
        let idxs: Vec<usize> = parsed.muts.iter().enumerate().filter(|(_, m)| !matches!(m, Mut::Marker(_) | Mut::Fsync(_))).map(|(i, _)| i).collect();
        let ready = parsed.muts.iter().position(|m| matches!(m, Mut::Marker(s) if s == "READY")).unwrap_or(0);
        let idxs: Vec<usize> = idxs.into_iter().filter(|i| *i > ready).collect();
        let stride = (idxs.len() / per_history_cap).max(1);
        let original = scratch.path.join("data.orig");
        let _ = std::fs::rename(&dir, &original);
        let mut vfs = Vfs::default();
        let mut cursor = 0usize;
        let (mut begun, mut acked) = (0usize, 0usize);
        let mut last_obs: Option<Model> = None;
        let mut stop = false;
        for (n, &ci) in idxs.iter().enumerate() {
            if stop {
                break;
            }
            // advance the virtual FS and the marker counters up to and including mutation ci
            while cursor <= ci {
                match &parsed.muts[cursor] {
                    Mut::Marker(s) => {
                        if s.starts_with("BEGIN ") {
                            begun += 1;
                        } else if s.starts_with("ACK ") || s.starts_with("ERR ") {
                            acked += 1;
                        }
                    }
                    other => vfs.apply(other),
                }
                cursor += 1;
            }
            // sampled by stride, except that every structural mutation (rename, unlink, truncate, re-open with
            // truncation: the commit points of flush / compaction / WAL rewrite / drop) is always taken
            let structural = matches!(&parsed.muts[ci], Mut::Rename(..) | Mut::Unlink(..) | Mut::Truncate(..) | Mut::Rmdir(..) | Mut::Open(_, true));
            if n % stride != 0 && ci != *idxs.last().unwrap() && !structural {
                continue;
            }
            let lanes: Vec<(&str, Vfs)> = {
                let mut v = vec![("crash", vfs.clone())];
                if torn_lane {
                    if let Mut::Write(p, off, data) = &parsed.muts[ci] {
                        if data.len() > 1 {
                            let mut t = vfs.clone();
                            if let Some(f) = t.files.get_mut(p) {
                                let cut = *off as usize + data.len() / 2;
                                if f.len() > cut {
                                    f.truncate(cut);
                                }
                            }
                            v.push(("torn-write", t));
                        }
                    }
                }
                v
            };
            for (lane, image) in lanes {
                if image.materialise(&dir).is_err() {
                    continue;
                }
                images += 1;
                let rec = recover(&dir, &spec_path);
                ctx.eval();
                let what_mut = match &parsed.muts[ci] {
                    Mut::Open(p, t) => format!("{} {}", if *t { "open+truncate" } else { "create" }, p.trim_start_matches(&root)),
                    Mut::Write(p, o, d) => format!("write {} bytes at {o} to {}", d.len(), p.trim_start_matches(&root)),
                    Mut::Rename(a, b) => format!("rename {} -> {}", a.trim_start_matches(&root), b.trim_start_matches(&root)),
                    Mut::Unlink(p) => format!("unlink {}", p.trim_start_matches(&root)),
                    Mut::Mkdir(p) => format!("mkdir {}", p.trim_start_matches(&root)),
                    Mut::Rmdir(p) => format!("rmdir {}", p.trim_start_matches(&root)),
                    Mut::Truncate(p, l) => format!("truncate {} to {l}", p.trim_start_matches(&root)),
                    _ => String::new(),
                };
                let inflight = if begun > acked { ops.get(begun - 1).map(|o| o["op"].as_str().unwrap_or("").to_string()).unwrap_or_default() } else { "between-operations".to_string() };
                let file_class = {
                    let w = what_mut.as_str();
                    if w.contains("catalog.json") { "rule-catalog" } else if w.contains("schema.json") { "schema-catalog" } else if w.contains("/wal/") { "wal" } else if w.contains("/batches/") { "batch" } else if w.contains("/shards/") { "shard-meta" } else if w.contains("metadata/") { "kg-metadata" } else { "other" }
                };
                let wit = |extra: J| json!({"ops": ops, "buffer_size": spec["buffer_size"], "max_wal": spec["max_wal"], "crash_after_mutation": ci, "mutation": what_mut, "lane": lane, "in_flight_operation": inflight, "acknowledged_ops": acked, "begun_ops": begun, "detail": extra});
                if rec["open"] != json!(true) {
                    if rec.get("harness").is_some() {
                        ctx.inconclusive(format!("case {k}: recovery process could not be started"));
                        continue;
                    }
                    ctx.violation(k, &format!("{id}:{lane}:unopenable:after-{file_class}-mutation:during-{inflight}"), format!("store does not reopen after a crash right after `{what_mut}`: {}", rec["error"].as_str().unwrap_or("").chars().take(160).collect::<String>()), wit(json!({"recovery": rec})));
                    stop = true;
                    break;
                }
                opened += 1;
                let got = project(&observed(&rec["dump"]), catalogs);
                let inside = begun > acked;
                if last_obs.as_ref() != Some(&got) || inside {
                    ctx.nontrivial(crate::rng::hash_str(&format!("{k}/{ci}/{lane}/{got:?}")));
                }
                last_obs = Some(got.clone());
                let admissible: Vec<Model> = (acked..=begun).map(|j| project(&models[j], catalogs)).collect();
                if !admissible.contains(&got) {
                    // direction of the damage
                    let want = &admissible[0];
                    let lost = want.iter().any(|(kg, w)| got.get(kg).map_or(true, |g| w.facts.iter().any(|(rel, s)| !s.is_subset(g.facts.get(rel).unwrap_or(&BTreeSet::new()))) || w.rules.keys().any(|n| !g.rules.contains_key(n)) || !w.schemas.is_subset(&g.schemas)));
                    let emptied = catalogs && want.values().any(|w| !w.rules.is_empty() || !w.schemas.is_empty()) && got.values().all(|g| g.rules.is_empty() && g.schemas.is_empty());
                    let class = if emptied { "catalog-silently-emptied" } else if lost { "acknowledged-state-lost" } else { "state-is-no-prefix" };
                    ctx.violation(k, &format!("{id}:{lane}:{class}:after-{file_class}-mutation:during-{inflight}"), format!("crash right after `{what_mut}`: recovered {got:?}, admissible {admissible:?}"), wit(json!({"recovered": rec["dump"]})));
                    stop = true;
                    break;
                }
            }
        }
        let _ = std::fs::remove_dir_all(&dir);
        if k % 4 == 0 {
            ctx.sample(json!({"ops": ops, "fs_mutations": idxs.len(), "buffer_size": spec["buffer_size"]}));
        }
    }
    ctx.count_n("crash_images_recovered", images);
    ctx.count_n("crash_images_opened", opened);
}

pub fn run13(ctx: &mut Ctx) {
    run_both(ctx, false);
}
pub fn run16(ctx: &mut Ctx) {
    run_both(ctx, true);
}
