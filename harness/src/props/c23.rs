//! C23 — why-not explanations are truthful (oracle: reference model + independent unifier).

use crate::ctx::{Ctx, Meta};
use crate::eng::*;
use crate::props::c21::setup;
use crate::refdl::{self, Atom, Clause, HeadArg, Term, Tup, V};
use inputlayer::provenance::proof_tree::{NodeKind, ProofTree};
use inputlayer::provenance::Blocker;
use serde_json::json;
use std::collections::BTreeSet;

pub static META: Meta = Meta {
    id: "C23",
    level: "exploration",
    rule: "the persistent-rule programs of C21 (joins, negation, recursion, constants, repeated variables, comparisons) over random EDBs; for every rule-defined relation `.why_not rel(c1..cn)` is asked for every candidate tuple over the value domain (arity <= 2: all; arity 3: 60 sampled); for a tuple outside the reference model every clause of the relation must carry at least one blocker and every reported blocker must genuinely hold (head does not unify / no model tuple matches the reported atom pattern / the reported comparison is false / the reported negated tuple is in the model); for a tuple inside the model it must not be the case that every clause carries a blocker; non-trivial = relation with a join, negation or derived body atom; distinct = program + EDB + tuple",
    assumptions: &["reference model for 'genuinely holds'", "blockers are read from the structured proof tree of the reply (WhyNot nodes), the text rows are not parsed"],
    floor: 100,
    watchdog: (0, 0),
};

fn parse_pattern(text: &str) -> Option<Atom> {
    let p = text.find('(')?;
    let rel = text[..p].trim().to_string();
    let inner = text[p + 1..].trim_end().strip_suffix(')')?;
    let args = inner
        .split(',')
        .map(|a| {
            let a = a.trim();
            if let Ok(i) = a.parse::<i64>() {
                Term::C(V::I(i))
            } else if a.starts_with('"') {
                Term::C(V::S(a.trim_matches('"').to_string()))
            } else if a.starts_with('_') {
                Term::Wild
            } else {
                Term::Var(a.to_string())
            }
        })
        .collect();
    Some(Atom { rel, args })
}

fn head_unifies(c: &Clause, t: &Tup) -> bool {
    if c.hargs.len() != t.len() {
        return false;
    }
    let mut env: std::collections::BTreeMap<&str, &V> = Default::default();
    for (h, v) in c.hargs.iter().zip(t.iter()) {
        match h {
            HeadArg::T(Term::C(k)) => {
                if k != v {
                    return false;
                }
            }
            HeadArg::T(Term::Var(x)) => {
                if let Some(prev) = env.insert(x.as_str(), v) {
                    if prev != v {
                        return false;
                    }
                }
            }
            _ => {}
        }
    }
    true
}

/// all blockers below a clause node (its own and its descendants')
fn blockers<'a>(t: &'a ProofTree, id: &String, out: &mut Vec<&'a Blocker>, seen: &mut BTreeSet<String>) {
    if !seen.insert(id.clone()) {
        return;
    }
    if let Some(n) = t.nodes.get(id) {
        if n.kind == NodeKind::WhyNot {
            if let Some(w) = &n.why_not {
                out.push(&w.blocker);
            }
        }
        for c in &n.children {
            blockers(t, c, out, seen);
        }
    }
}

pub fn run(ctx: &mut Ctx) {
    let total = ctx.sz(120, 2400);
    for k in ctx.cases(total) {
        let mut r = ctx.rng(k);
        let Some(case) = setup(ctx, &mut r, k) else { continue };
        let p = &case.p;
        let derived: BTreeSet<String> = p.clauses.iter().map(|c| c.head.clone()).collect();
        let mut heads: Vec<(String, usize)> = Vec::new();
        for c in &p.clauses {
            if !heads.iter().any(|(h, _)| h == &c.head) {
                heads.push((c.head.clone(), c.hargs.len()));
            }
        }
        let empty = refdl::Rel::new();
        for (rel, ar) in heads {
            let clauses: Vec<&Clause> = p.clauses.iter().filter(|c| c.head == rel).collect();
            if clauses.iter().any(|c| c.has_agg()) {
                continue;
            }
            let model = case.model.db.get(&rel).unwrap_or(&empty);
            // candidate tuples
            let dom: Vec<i64> = (0..6).collect();
            let mut cands: Vec<Tup> = Vec::new();
            match ar {
                1 => cands = dom.iter().map(|a| vec![V::I(*a)]).collect(),
                2 => {
                    for a in &dom {
                        for b in &dom {
                            cands.push(vec![V::I(*a), V::I(*b)]);
                        }
                    }
                }
                _ => {
                    for t in model.iter().take(20) {
                        cands.push(t.clone());
                    }
                    for _ in 0..40 {
                        cands.push((0..ar).map(|_| V::I(r.range(0, 5))).collect());
                    }
                }
            }
            let interesting = clauses.iter().any(|c| c.body.len() >= 2 || c.body.iter().any(|l| matches!(l, refdl::Lit::Pos(a) | refdl::Lit::Neg(a) if derived.contains(&a.rel))));
            for t in cands {
                let q = format!(".why_not {rel}({})", t.iter().map(|v| v.to_string()).collect::<Vec<_>>().join(", "));
                ctx.eval();
                let res = match case.h.exec("default", &q) {
                    Ok(x) => x,
                    Err(e) => {
                        ctx.count("why_not_request_failed");
                        ctx.trace(|| format!("{q}: {e}"));
                        continue;
                    }
                };
                let Some(tree) = res.proof_trees.as_ref().and_then(|v| v.first()) else {
                    ctx.count("reply_without_tree");
                    continue;
                };
                let Some(root) = tree.roots.first().and_then(|id| tree.nodes.get(id)) else { continue };
                if interesting {
                    ctx.nontrivial(crate::rng::hash_str(&format!("{}|{:?}|{q}", p.text(), p.edb)));
                }
                let in_model = model.contains(&t);
                let wit = |extra: serde_json::Value| json!({"program": p.to_json(), "request": q, "tuple_is_derivable": in_model, "detail": extra, "reply_rows": crate::hnd::rows_str(&res).into_iter().take(14).collect::<Vec<_>>()});
                // per-clause blockers
                let mut per_clause: Vec<(String, Vec<&Blocker>)> = Vec::new();
                for cid in &root.children {
                    let Some(cn) = tree.nodes.get(cid) else { continue };
                    let mut bs = Vec::new();
                    blockers(tree, cid, &mut bs, &mut BTreeSet::new());
                    per_clause.push((cn.rule_id.clone().unwrap_or_default(), bs));
                }
                if in_model {
                    ctx.count("derivable_tuples_asked");
                    if !per_clause.is_empty() && per_clause.iter().all(|(_, b)| !b.is_empty()) {
                        // classify by the clauses that actually derive the tuple (reference evaluation)
                        let deriving: Vec<&&Clause> = clauses
                            .iter()
                            .filter(|c| {
                                refdl::body_valuations(c, &case.model.db).map_or(false, |vals| {
                                    vals.iter().any(|v| {
                                        c.hargs.iter().zip(t.iter()).all(|(h, x)| match h {
                                            HeadArg::T(Term::C(kc)) => kc == x,
                                            HeadArg::T(Term::Var(name)) => v.env.get(name) == Some(x),
                                            _ => true,
                                        })
                                    })
                                })
                            })
                            .collect();
                        // per deriving clause: which known why-not limitation (if any) explains that it was blocked
                        let clause_class = |c: &Clause| -> &'static str {
                            let head_vars: BTreeSet<&str> = c.hargs.iter().filter_map(|h| if let HeadArg::T(Term::Var(v)) = h { Some(v.as_str()) } else { None }).collect();
                            let free_atom = c.body.iter().any(|l| matches!(l, refdl::Lit::Pos(a) if a.args.iter().any(|x| matches!(x, Term::Var(v) if !head_vars.contains(v.as_str())))));
                            if c.body.iter().any(|l| matches!(l, refdl::Lit::Pos(a) | refdl::Lit::Neg(a) if derived.contains(&a.rel))) {
                                "body-over-derived-relation"
                            } else if c.body.iter().any(|l| matches!(l, refdl::Lit::Assign(..))) {
                                "computed-column-clause"
                            } else if c.body.iter().filter(|l| matches!(l, refdl::Lit::Pos(_))).count() >= 2 {
                                "multi-atom-body-needs-backtracking"
                            } else if free_atom && c.body.iter().any(|l| matches!(l, refdl::Lit::Cmp(..))) {
                                // one atom whose variables the head does not all fix, followed by a comparison: the
                                // first matching tuple may fail the comparison while a later one passes
                                "single-atom-body-with-comparison-needs-backtracking"
                            } else if free_atom && c.body.iter().any(|l| matches!(l, refdl::Lit::Neg(..))) {
                                "single-atom-body-with-negation-needs-backtracking"
                            } else {
                                "single-atom-body-over-base-relation"
                            }
                        };
                        let classes: Vec<&'static str> = deriving.iter().map(|c| clause_class(c)).collect();
                        // a deriving clause that no known limitation explains decides the class; otherwise the
                        // limitation with the highest precedence among the deriving clauses names it
                        let order = ["single-atom-body-over-base-relation", "body-over-derived-relation", "computed-column-clause", "multi-atom-body-needs-backtracking", "single-atom-body-with-comparison-needs-backtracking", "single-atom-body-with-negation-needs-backtracking"];
                        let class = order.iter().copied().find(|o| classes.contains(o)).unwrap_or("single-atom-body-over-base-relation");
                        ctx.violation(k, &format!("C23:derived-tuple-all-clauses-blocked:{class}"), format!("{rel}{t:?} is derivable but `{q}` reports a blocker for every clause"), wit(json!({})));
                    }
                    continue;
                }
                ctx.count("underivable_tuples_asked");
                let mut reported = false;
                for (ci, (rule_text, bs)) in per_clause.iter().enumerate() {
                    let cl = crate::rparse::parse_clause(rule_text).and_then(|pc| clauses.iter().find(|c| c.to_string() == pc.to_string()).copied());
                    if bs.is_empty() {
                        let neg_derived = cl.is_some_and(|c| c.body.iter().any(|l| matches!(l, refdl::Lit::Neg(a) if derived.contains(&a.rel))));
                        let pos_derived = cl.is_some_and(|c| c.body.iter().any(|l| matches!(l, refdl::Lit::Pos(a) if derived.contains(&a.rel))));
                        let class = if neg_derived { "negation-over-derived-relation" } else if pos_derived { "body-over-derived-relation" } else { "base-relations-only" };
                        ctx.violation(k, &format!("C23:clause-without-blocker:{class}"), format!("{rel}{t:?} is not derivable but clause {ci} `{rule_text}` carries no blocker"), wit(json!({"clause": rule_text})));
                        reported = true;
                        break;
                    }
                    for b in bs {
                        let bad: Option<(String, String)> = match b {
                            Blocker::HeadUnificationFailed { reason } => {
                                if cl.is_some_and(|c| head_unifies(c, &t)) {
                                    Some(("head-unification-blocker-false".into(), format!("head of `{rule_text}` unifies with {t:?} ({reason})")))
                                } else {
                                    None
                                }
                            }
                            Blocker::BodyAtomFailed { predicate_text, .. } => match parse_pattern(predicate_text) {
                                Some(a) => {
                                    let rows = case.model.db.get(&a.rel).unwrap_or(&empty);
                                    if rows.iter().any(|tup| refdl::unify(&a, tup, &Default::default()).is_some()) {
                                        let class = if derived.contains(&a.rel) { "derived-relation" } else { "base-relation" };
                                        Some((format!("body-atom-blocker-false:{class}"), format!("blocker says no tuple matches {predicate_text}, but one does")))
                                    } else {
                                        None
                                    }
                                }
                                None => None,
                            },
                            Blocker::ComparisonFailed { comparison_text, lhs_value, rhs_value } => {
                                let op = ["!=", "<=", ">=", "<", ">", "="].iter().find(|o| comparison_text.contains(&format!(" {o} "))).copied().unwrap_or("");
                                match (lhs_value.trim().parse::<i64>(), rhs_value.trim().parse::<i64>()) {
                                    (Ok(a), Ok(b)) => {
                                        let holds = match op {
                                            "<" => a < b,
                                            "<=" => a <= b,
                                            ">" => a > b,
                                            ">=" => a >= b,
                                            "=" => a == b,
                                            "!=" => a != b,
                                            _ => false,
                                        };
                                        if holds && !op.is_empty() {
                                            Some(("comparison-blocker-false".into(), format!("`{comparison_text}` with {lhs_value} and {rhs_value} is true")))
                                        } else {
                                            None
                                        }
                                    }
                                    _ => None,
                                }
                            }
                            Blocker::NegationSucceeded { relation, matching_tuple } => {
                                let tup: Tup = matching_tuple.iter().map(value_to_v).collect();
                                if !case.model.db.get(relation).unwrap_or(&empty).contains(&tup) {
                                    Some(("negation-blocker-false".into(), format!("{relation}{tup:?} does not hold")))
                                } else {
                                    None
                                }
                            }
                            Blocker::HnswNotInTopK { .. } => None,
                        };
                        if let Some((class, what)) = bad {
                            ctx.violation(k, &format!("C23:{class}"), format!("{rel}{t:?}: {what}"), wit(json!({"clause": rule_text})));
                            reported = true;
                            break;
                        }
                    }
                    if reported {
                        break;
                    }
                }
                // the rule catalog keeps one copy of textually identical clauses
                let distinct_clauses = clauses.iter().map(|c| c.to_string()).collect::<BTreeSet<_>>().len();
                if !reported && per_clause.len() < distinct_clauses {
                    ctx.violation(k, "C23:clause-missing-from-explanation", format!("{rel} has {distinct_clauses} distinct clauses, the explanation covers {}", per_clause.len()), wit(json!({})));
                }
                if !reported && k % 30 == 0 && ctx.report.samples.len() < 3 {
                    ctx.sample(wit(json!({"clauses_explained": per_clause.len()})));
                }
            }
        }
        case.h.h.shutdown();
    }
}
