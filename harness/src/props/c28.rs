//! C28 — role permissions form a lattice, viewers are read-only, admin-only operations stay admin-only.
//! Exhaustive over every Statement / MetaCommand variant x every role; "changes persistent state" is
//! observed by executing each viewer-permitted variant against a populated store.

use crate::ctx::{Ctx, Meta};
use crate::hnd::H;
use crate::store::*;
use inputlayer::auth::{authorize_kg_operation, authorize_statement, KgRole, Role};
use inputlayer::{parse_statement, MetaCommand, Statement};
use serde_json::json;
use std::collections::BTreeSet;

pub static META: Meta = Meta {
    id: "C28",
    level: "exploration",
    rule: "exhaustive: one or more canonical texts for every Statement variant and every MetaCommand variant (a compile-time exhaustive match names the variant, so a new variant breaks the harness build; the run checks that every named variant was reached) x KG roles {viewer,editor,owner} x global roles {viewer,editor,admin}: permitted(lower) => permitted(higher) for both decision functions; user/api-key/compaction variants denied to every non-admin; every variant that both functions permit to a viewer is executed through Handler::execute_program on a populated store (auto_create_knowledge_graphs off and on) and the full dump (KG list, facts, rules, schemas) must be unchanged, also after restart; thorough adds random argument instantiations; distinct = statement text x configuration; non-trivial = every case",
    assumptions: &["persistent state = KG list + facts + rules + schemas of every KG as dumped through the storage API (session state is not persistent)"],
    floor: 60,
    watchdog: (0, 0),
};

/// variant name through an exhaustive match: adding a variant to the crate breaks this build
fn variant(s: &Statement) -> &'static str {
    match s {
        Statement::Insert(_) => "Insert",
        Statement::Delete(_) => "Delete",
        Statement::Update(_) => "Update",
        Statement::TypeDecl(_) => "TypeDecl",
        Statement::SessionRule(_) => "SessionRule",
        Statement::Fact(_) => "Fact",
        Statement::Query(_) => "Query",
        Statement::SchemaDecl(_) => "SchemaDecl",
        Statement::PersistentRule(_) => "PersistentRule",
        Statement::DeleteRelationOrRule(_) => "DeleteRelationOrRule",
        Statement::Meta(m) => match m {
            MetaCommand::KgShow => "KgShow",
            MetaCommand::KgList => "KgList",
            MetaCommand::KgCreate(_) => "KgCreate",
            MetaCommand::KgUse(_) => "KgUse",
            MetaCommand::KgDrop(_) => "KgDrop",
            MetaCommand::RelList => "RelList",
            MetaCommand::RelDescribe(_) => "RelDescribe",
            MetaCommand::RelDrop(_) => "RelDrop",
            MetaCommand::RuleList => "RuleList",
            MetaCommand::RuleQuery(_) => "RuleQuery",
            MetaCommand::RuleShowDef(_) => "RuleShowDef",
            MetaCommand::RuleDrop(_) => "RuleDrop",
            MetaCommand::RuleDropPrefix(_) => "RuleDropPrefix",
            MetaCommand::RuleEdit { .. } => "RuleEdit",
            MetaCommand::RuleClear(_) => "RuleClear",
            MetaCommand::RuleRemove { .. } => "RuleRemove",
            MetaCommand::SessionList => "SessionList",
            MetaCommand::SessionClear => "SessionClear",
            MetaCommand::SessionDrop(_) => "SessionDrop",
            MetaCommand::SessionDropName(_) => "SessionDropName",
            MetaCommand::IndexList => "IndexList",
            MetaCommand::IndexCreate(_) => "IndexCreate",
            MetaCommand::IndexDrop(_) => "IndexDrop",
            MetaCommand::IndexStats(_) => "IndexStats",
            MetaCommand::IndexRebuild(_) => "IndexRebuild",
            MetaCommand::ClearPrefix(_) => "ClearPrefix",
            MetaCommand::Compact => "Compact",
            MetaCommand::Status => "Status",
            MetaCommand::Debug(_) => "Debug",
            MetaCommand::Why(_) => "Why",
            MetaCommand::WhyFull(_) => "WhyFull",
            MetaCommand::WhyNot(_) => "WhyNot",
            MetaCommand::AgentMessage(_) => "AgentMessage",
            MetaCommand::AgentStart(_) => "AgentStart",
            MetaCommand::AgentSetup(_) => "AgentSetup",
            MetaCommand::AgentExamples => "AgentExamples",
            MetaCommand::Help => "Help",
            MetaCommand::Quit => "Quit",
            MetaCommand::Load { .. } => "Load",
            MetaCommand::UserList => "UserList",
            MetaCommand::UserCreate { .. } => "UserCreate",
            MetaCommand::UserDrop(_) => "UserDrop",
            MetaCommand::UserPassword { .. } => "UserPassword",
            MetaCommand::UserRole { .. } => "UserRole",
            MetaCommand::ApiKeyCreate(_) => "ApiKeyCreate",
            MetaCommand::ApiKeyList => "ApiKeyList",
            MetaCommand::ApiKeyRevoke(_) => "ApiKeyRevoke",
            MetaCommand::KgAclList(_) => "KgAclList",
            MetaCommand::KgAclGrant { .. } => "KgAclGrant",
            MetaCommand::KgAclRevoke { .. } => "KgAclRevoke",
        },
    }
}

const ALL_VARIANTS: [&str; 60] = [
    "Insert", "Delete", "Update", "TypeDecl", "SessionRule", "Fact", "Query", "SchemaDecl", "PersistentRule", "DeleteRelationOrRule", "KgShow", "KgList", "KgCreate", "KgUse", "KgDrop", "RelList", "RelDescribe", "RelDrop", "RuleList", "RuleQuery",
    "RuleShowDef", "RuleDrop", "RuleDropPrefix", "RuleEdit", "RuleClear", "RuleRemove", "SessionList", "SessionClear", "SessionDrop", "SessionDropName", "IndexList", "IndexCreate", "IndexDrop", "IndexStats", "IndexRebuild", "ClearPrefix", "Compact", "Status", "Debug", "Why",
    "WhyFull", "WhyNot", "AgentMessage", "AgentStart", "AgentSetup", "AgentExamples", "Help", "Quit", "Load", "UserList", "UserCreate", "UserDrop", "UserPassword", "UserRole", "ApiKeyCreate", "ApiKeyList", "ApiKeyRevoke", "KgAclList", "KgAclGrant", "KgAclRevoke",
];
const ADMIN_ONLY: [&str; 9] = ["Compact", "UserList", "UserCreate", "UserDrop", "UserPassword", "UserRole", "ApiKeyCreate", "ApiKeyList", "ApiKeyRevoke"];

/// canonical statement texts; `{r}` = base relation, `{p}` = rule, `{k}` = other KG, `{n}` = fresh name
fn templates() -> Vec<&'static str> {
    vec![
        "+{r}(7, 8)", "+{r}[(7, 8), (9, 9)]", "-{r}(1, 2)", "-{r}(X, Y) <- {r}(X, Y), X > 1", "-{r}(X, Y), +{r}(X, 99) <- {r}(X, Y)", "type Email: string", "tmp(X) <- {r}(X, _)", "{r}(5, 5)", "?{r}(X, Y)", "?{p}(X)",
        "+{n}(a: int, b: string)", "{n}(a: int, b: string)", "+{n}(X) <- {r}(X, _)", "-{r}", "-{p}", ".kg", ".kg list", ".kg create {n}", ".kg use {k}", ".kg use {n}", ".kg drop {k}", ".rel", ".rel {r}", ".rel drop {r}", ".rule", ".rule list", ".rule {p}", ".rule def {p}",
        ".rule drop {p}", ".rule drop prefix p", ".rule edit {p} 1 {p}(X) <- {r}(_, X)", ".rule clear {p}", ".rule remove {p} 1", ".session", ".session clear", ".session drop 1", ".session drop tmp", ".index", ".index list", ".index create idx1 on vecs(v) metric cosine",
        ".index drop idx1", ".index stats idx1", ".index rebuild idx1", ".clear prefix {r}", ".compact", ".status", ".debug ?{r}(X, Y)", ".why ?{p}(X)", ".why full ?{p}(X)", ".why_not {p}(42)", ".agent examples", ".agent setup basics", ".agent start basics", ".agent what is a rule", ".help", ".quit", ".load /nonexistent/file.iql",
        ".user list", ".user create mallory pw123456 admin", ".user drop alice", ".user password alice newpw12345", ".user role alice admin", ".apikey create k1", ".apikey list", ".apikey revoke k1", ".kg acl list", ".kg acl list {k}", ".kg acl grant {k} alice owner", ".kg acl grant {k} alice editor", ".kg acl grant {k} alice viewer", ".kg acl grant {k} bob viewer", ".kg acl revoke {k} alice",
        ".user create mallory2 pw123456 viewer", ".user role alice viewer", ".user role alice editor",
    ]
}

fn rank_kg(r: &KgRole) -> u8 {
    match r {
        KgRole::Viewer => 0,
        KgRole::Editor => 1,
        KgRole::Owner => 2,
    }
}

fn populate(h: &H) {
    // users and ACLs live in the internal graph; they are persistent state too
    h.h.bootstrap_auth();
    let _ = h.h.handle_user_create("alice", "pw-123456789", "editor");
    let _ = h.h.handle_user_create("bob", "pw-123456789", "viewer");
    let _ = h.exec("default", "+r[(1, 2), (2, 3), (3, 4)]\n+p(X) <- r(X, _)\n+typed(a: int, b: string)\n+typed(1, \"x\")\n+vecs(id: int, v: vector)\n+vecs(1, [1.0, 2.0])");
    let _ = h.exec("default", ".kg create other");
    let _ = h.exec("other", "+r[(10, 20)]\n+p(X) <- r(X, _)");
    let _ = h.h.handle_kg_acl_grant("other", "alice", "editor");
}

pub fn run(ctx: &mut Ctx) {
    let mut seen: BTreeSet<&'static str> = BTreeSet::new();
    let mut r = ctx.rng(0);
    let rounds = ctx.sz(1, 12);
    let mut stmts: Vec<(String, Statement, &'static str)> = Vec::new();
    for round in 0..rounds {
        for t in templates() {
            let (rel, rule, kg, fresh) = if round == 0 { ("r".to_string(), "p".to_string(), "other".to_string(), "fresh1".to_string()) } else { (r.pick(&["r", "typed", "vecs", "nosuch"]).to_string(), r.pick(&["p", "nosuch_rule"]).to_string(), r.pick(&["other", "default", "nokg"]).to_string(), format!("fresh{}", r.below(1000))) };
            let text = t.replace("{r}", &rel).replace("{p}", &rule).replace("{k}", &kg).replace("{n}", &fresh);
            match parse_statement(&text) {
                Ok(s) => {
                    let v = variant(&s);
                    seen.insert(v);
                    stmts.push((text, s, v));
                }
                Err(e) => ctx.inconclusive(format!("canonical text `{text}` does not parse: {e}")),
            }
        }
    }
    let missing: Vec<&&str> = ALL_VARIANTS.iter().filter(|v| !seen.contains(**v)).collect();
    if !missing.is_empty() {
        ctx.inconclusive(format!("variants not reached by any canonical text: {missing:?}"));
    }
    ctx.note("variants_total", json!(ALL_VARIANTS.len()));
    ctx.note("variants_reached", json!(seen.len()));
    ctx.note("exhaustive", json!(missing.is_empty()));

    // (1) lattice + admin-only, on the decision functions (shard 0 only: it is cheap)
    if ctx.shard.0 == 0 {
        let kg_roles = [KgRole::Viewer, KgRole::Editor, KgRole::Owner];
        let roles = [Role::Viewer, Role::Editor, Role::Admin];
        for (text, s, v) in &stmts {
            for a in &kg_roles {
                for b in &kg_roles {
                    ctx.eval();
                    if rank_kg(a) < rank_kg(b) && authorize_kg_operation(a, s).is_ok() && authorize_kg_operation(b, s).is_err() {
                        ctx.violation(0, &format!("C28:kg-lattice:{v}"), format!("`{text}` is permitted to KG {a} but denied to KG {b}"), json!({"statement": text}));
                    }
                }
            }
            for (i, a) in roles.iter().enumerate() {
                for (j, b) in roles.iter().enumerate() {
                    ctx.eval();
                    if i < j && authorize_statement(a, s).is_ok() && authorize_statement(b, s).is_err() {
                        ctx.violation(0, &format!("C28:global-lattice:{v}"), format!("`{text}` is permitted to global {a} but denied to global {b}"), json!({"statement": text}));
                    }
                }
            }
            if ADMIN_ONLY.contains(v) {
                for a in [Role::Viewer, Role::Editor] {
                    if authorize_statement(&a, s).is_ok() {
                        ctx.violation(0, &format!("C28:admin-only-permitted-to-non-admin:{v}"), format!("`{text}` is permitted to global {a}"), json!({"statement": text}));
                    }
                }
            }
            ctx.nontrivial(crate::rng::hash_str(&format!("decide:{text}")));
        }
        ctx.sample(json!({"decision_table_row": {"statement": stmts[3].0, "kg_viewer": authorize_kg_operation(&KgRole::Viewer, &stmts[3].1).is_ok(), "kg_editor": authorize_kg_operation(&KgRole::Editor, &stmts[3].1).is_ok(), "kg_owner": authorize_kg_operation(&KgRole::Owner, &stmts[3].1).is_ok()}}));
    }

    // (2) every viewer-permitted variant is executed and must leave persistent state unchanged
    let viewer_ok: Vec<&(String, Statement, &'static str)> = stmts.iter().filter(|(_, s, _)| authorize_kg_operation(&KgRole::Viewer, s).is_ok() && authorize_statement(&Role::Viewer, s).is_ok()).collect();
    ctx.note("viewer_permitted_statements", json!(viewer_ok.len()));
    for k in ctx.cases(viewer_ok.len() as u64 * 2) {
        ctx.at_case(k);
        let (text, _s, v) = viewer_ok[(k / 2) as usize];
        if *v == "Quit" || v.starts_with("Agent") {
            continue; // .quit ends a client session; .agent calls an external service
        }
        let auto_create = k % 2 == 1;
        let scratch = Scratch::new("c28");
        let o = StoreOpts { auto_create, ..Default::default() };
        let Ok(h) = H::open(&scratch.path, &o) else { continue };
        populate(&h);
        let sid = h.h.create_session("default").ok();
        let Ok(before) = dump_all(&h.h.get_storage()) else { continue };
        ctx.eval();
        ctx.nontrivial(crate::rng::hash_str(&format!("exec:{text}:{auto_create}")));
        let res = h.exec_as(sid.as_ref(), Some("default"), text, None);
        let after = dump_all(&h.h.get_storage()).unwrap_or_default();
        let mut changed = after != before;
        let mut how = "live";
        if !changed {
            h.h.shutdown();
            drop(h);
            if let Ok(e2) = open(&scratch.path, &o) {
                let re = dump_all(&e2).unwrap_or_default();
                if re != before {
                    changed = true;
                    how = "after-restart";
                }
            }
        }
        if changed {
            ctx.violation(k, &format!("C28:viewer-permitted-statement-changes-state:{v}:auto_create={auto_create}"), format!("`{text}` is permitted to viewers but changed persistent state ({how}); result {:?}", res.map(|_| "Ok").map_err(|e| e.chars().take(80).collect::<String>())), json!({"statement": text, "auto_create_knowledge_graphs": auto_create, "before": dump_json(&before), "after": dump_json(&after)}));
        } else if k < 4 {
            ctx.sample(json!({"viewer_permitted_statement": text, "auto_create_knowledge_graphs": auto_create, "state_changed": false}));
        }
    }
}
