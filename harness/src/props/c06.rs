//! C06 — aggregate values are exact (oracle: RefDL's aggregate semantics), under all 32 optimizer settings.

use crate::ctx::{Ctx, Meta};
use crate::eng::*;
use crate::gen::*;
use crate::refdl::{self, V};
use crate::shrink::{features, shrink};
use serde_json::json;

pub static META: Meta = Meta {
    id: "C06",
    level: "exploration",
    rule: "generated non-recursive aggregate queries (count, count_distinct, sum, min, max, avg; aggregate at any head position; bodies that are single atoms, joins multiplying bindings, projections creating duplicates, wildcards, constants, comparisons, computed columns; aggregates over intermediate relations) x EDB over small ints; each executed under all 32 optimizer settings and compared group-for-group with the reference evaluator (avg within 1e-9 relative, everything else exact); non-trivial = reference answer non-empty; distinct = program + EDB",
    assumptions: &["RefDL aggregate semantics: group = head plain variables, one contribution per distinct valuation of all body variables (each `_` a fresh variable)", "integer data only: sum over floats truncates by design and is outside the property"],
    floor: 50,
    watchdog: (0, 0),
};

fn close(a: &refdl::Rel, b: &refdl::Rel) -> bool {
    if a == b {
        return true;
    }
    if a.len() != b.len() {
        return false;
    }
    a.iter().zip(b.iter()).all(|(x, y)| {
        x.len() == y.len()
            && x.iter().zip(y.iter()).all(|(u, v)| match (u, v) {
                (V::F(p), V::F(q)) => {
                    let (p, q) = (f64::from_bits(*p), f64::from_bits(*q));
                    (p - q).abs() <= 1e-9 * p.abs().max(q.abs()).max(1.0)
                }
                _ => u == v,
            })
    })
}

/// first configuration whose answer is not the reference answer (None = all agree)
fn wrong_config(p: &GenProgram) -> Option<(u8, Result<refdl::Rel, String>, refdl::Rel)> {
    let want = refdl::evaluate(&p.clauses, &p.edb, false).ok()?.db.get("q").cloned().unwrap_or_default();
    for bits in (0..32u8).rev() {
        match run_engine(p, &RunOpts { bits: Some(bits), ..Default::default() }) {
            Ok(a) => {
                let got = a.set();
                if a.rows.len() != got.len() || !close(&got, &want) {
                    return Some((bits, Ok(got), want));
                }
            }
            Err(e) => {
                // an aggregate query every configuration rejects is outside the property; one that only
                // some configurations reject is C02's business — here only answers are judged
                let _ = e;
            }
        }
    }
    None
}

pub fn run(ctx: &mut Ctx) {
    let total = ctx.sz(900, 30_000);
    for k in ctx.cases(total) {
        let mut r = ctx.rng(k);
        let opts = match k % 3 {
            0 => GenOpts { agg: 100, max_idb: 0, max_body: 2, neg: 5, cmp: 20, arith: 15, bound_query: 0, max_edb: 12, ..GenOpts::default() },
            1 => GenOpts { agg: 100, max_idb: 1, max_body: 3, neg: 10, rec: 0, mutual: 0, bound_query: 0, max_edb: 12, ..GenOpts::default() },
            _ => GenOpts { agg: 100, max_idb: 2, rec: 20, mutual: 5, bound_query: 10, max_edb: 10, ..GenOpts::default() },
        };
        let p = gen_program(&mut r, &opts);
        if !p.tags.contains("agg") {
            continue;
        }
        let Ok(model) = refdl::evaluate(&p.clauses, &p.edb, false) else { continue };
        let want = model.db.get("q").cloned().unwrap_or_default();
        ctx.evals(32);
        if !want.is_empty() {
            ctx.nontrivial_str(&format!("{}|{:?}", p.text(), p.edb));
            ctx.sample(json!({"case": k, "input": p.to_json(), "reference_answer": rel_json(&want)}));
        }
        let aggf = p.clauses.last().map(|c| format!("{:?}", c.hargs.iter().find_map(|h| if let refdl::HeadArg::Agg(f, _) = h { Some(*f) } else { None }))).unwrap_or_default();
        ctx.count(&format!("agg:{aggf}"));
        if wrong_config(&p).is_some() {
            let small = shrink(&p, |c| wrong_config(c).is_some(), 200);
            if let Some((bits, got, want)) = wrong_config(&small) {
                let f = features(&small).iter().copied().collect::<Vec<_>>().join("+");
                let aggs = small.clauses.last().map(|c| c.hargs.iter().filter_map(|h| if let refdl::HeadArg::Agg(f, _) = h { Some(format!("{f:?}").to_lowercase()) } else { None }).collect::<Vec<_>>().join("+")).unwrap_or_default();
                let all_wrong = (0..32u8).all(|b| matches!(run_engine(&small, &RunOpts { bits: Some(b), ..Default::default() }), Ok(a) if !close(&a.set(), &want)));
                let scope = if all_wrong { "every-config".to_string() } else { format!("config({})", config_name(bits)) };
                ctx.violation(
                    k,
                    &format!("C06:{aggs}:{f}:{scope}"),
                    format!("aggregate answer under [{}] differs from the reference semantics", config_name(bits)),
                    json!({"minimised": small.to_json(), "config": config_name(bits), "engine": match &got { Ok(g) => rel_json(g), Err(e) => json!(e) }, "reference": rel_json(&want), "original": p.to_json()}),
                );
            }
        }
    }
}
