//! C02 — optimizer settings never change answers (oracle: agreement of all 32 configurations).

use crate::ctx::{Ctx, Meta};
use crate::eng::*;
use crate::gen::*;
use crate::refdl;
use crate::shrink::{features, shrink};
use serde_json::json;

pub static META: Meta = Meta {
    id: "C02",
    level: "exploration",
    rule: "generated stratified programs (biased to multi-clause heads, 3-4-way joins, bound recursive queries, aggregates) x EDB, each executed under all 32 OptimizationConfig combinations; every answer (or error) is compared with the all-off configuration; non-trivial = reference answer non-empty; distinct = program text + EDB",
    assumptions: &["disagreement between two configurations decides; RefDL is attached only to say which side is wrong"],
    floor: 20,
    watchdog: (0, 0),
};

fn outcome(p: &GenProgram, bits: u8) -> Result<refdl::Rel, String> {
    run_engine(p, &RunOpts { bits: Some(bits), ..Default::default() }).map(|a| a.set())
}

/// the configurations (other than 0) whose outcome differs from configuration 0
fn disagreeing(p: &GenProgram) -> Vec<u8> {
    let base = outcome(p, 0);
    (1..32u8).filter(|b| {
        let o = outcome(p, *b);
        match (&base, &o) {
            (Ok(a), Ok(b)) => a != b,
            (Err(_), Err(_)) => false,
            _ => true,
        }
    }).collect()
}

pub fn culprit_flags(bad: &[u8]) -> String {
    // single flags that alone flip the answer; else the smallest disagreeing combination
    let singles: Vec<String> = [1u8, 2, 4, 8, 16].iter().filter(|b| bad.contains(b)).map(|b| config_name(*b)).collect();
    if !singles.is_empty() {
        singles.join(",")
    } else {
        let m = bad.iter().min_by_key(|b| b.count_ones()).copied().unwrap_or(0);
        format!("combo({})", config_name(m))
    }
}

pub fn run(ctx: &mut Ctx) {
    let total = ctx.sz(4800, 48_000);
    let opts = GenOpts { union: 45, max_body: 4, bound_query: 40, agg: 20, rec: 35, ..GenOpts::default() };
    // every third case is a small program (0-1 intermediate relations, 1-2 body atoms, few filters):
    // complex programs mostly have empty answers, small ones exercise single operators with data flowing
    let simple = GenOpts { max_idb: 1, max_body: 2, neg: 5, cmp: 10, agg: 10, arith: 10, union: 15, rec: 15, mutual: 0, bound_query: 10, ..GenOpts::default() };
    for k in ctx.cases(total) {
        let mut r = ctx.rng(k);
        let p = gen_program(&mut r, if k % 2 == 0 { &simple } else { &opts });
        let Ok(model) = refdl::evaluate(&p.clauses, &p.edb, false) else { continue };
        let want = model.db.get("q").cloned().unwrap_or_default();
        ctx.evals(32);
        for t in &p.tags {
            ctx.count(&format!("tag:{t}"));
        }
        let bad = disagreeing(&p);
        if !want.is_empty() {
            ctx.nontrivial_str(&format!("{}|{:?}", p.text(), p.edb));
            ctx.sample(json!({"case": k, "input": p.to_json(), "configs": 32, "disagreeing": bad.len()}));
        }
        if matches!(outcome(&p, 0), Err(_)) {
            ctx.count("rejected_by_all_off");
        }
        if !bad.is_empty() {
            let small = shrink(&p, |c| !disagreeing(c).is_empty(), 150);
            let bad2 = disagreeing(&small);
            let base = outcome(&small, 0);
            let other = outcome(&small, bad2[0]);
            let refa = refdl::evaluate(&small.clauses, &small.edb, false).ok().and_then(|m| m.db.get("q").cloned()).unwrap_or_default();
            let f = features(&small).iter().copied().collect::<Vec<_>>().join("+");
            let sig = format!("C02:{}:{}", culprit_flags(&bad2), f);
            let show = |o: &Result<refdl::Rel, String>| match o {
                Ok(r) => rel_json(r),
                Err(e) => json!(format!("ERR {e}")),
            };
            ctx.violation(
                k,
                &sig,
                format!("answer under [{}] differs from all-optimizations-off", config_name(bad2[0])),
                json!({"minimised": small.to_json(), "all_off": show(&base), "config": config_name(bad2[0]), "with_config": show(&other),
                       "reference": rel_json(&refa), "disagreeing_configs": bad2.iter().map(|b| config_name(*b)).collect::<Vec<_>>()}),
            );
        }
    }
}
