//! C27 — authorization holds for every program; C29 — the internal KG is unreachable for non-admins.
//! Both run generated (multi-line) programs through Handler::execute_program under non-admin identities
//! with every combination of per-KG roles and compare complete dumps before and after.

use crate::ctx::{Ctx, Meta};
use crate::hnd::{rows_str, H};
use crate::store::*;
use inputlayer::auth::{AuthIdentity, Role};
use serde_json::json;
use std::collections::BTreeMap;

pub static META27: Meta = Meta {
    id: "C27",
    level: "exploration",
    rule: "generated programs of 1-6 lines mixing queries, inserts, bulk inserts, deletes, conditional deletes, updates, persistent/session rules, session facts, schema declarations and meta commands (.kg use/create/drop, .rule drop/clear/remove, .rel drop, .clear prefix, .compact, .kg acl grant) with comment lines (// and %), inline comments, blank lines, continuation lines, indented statements (after comments, at the start, after other statements) and CRLF, submitted by 12 non-admin identities = global {viewer,editor} x per-KG roles on k1/k2 from {none,viewer,editor,owner}; oracle: for every KG on which the identity's role is viewer or absent (and which the program did not create itself) the dump of facts/rules/schemas is identical before and after, and no such KG disappears; distinct = program text x identity; non-trivial = program contains a write statement aimed at a KG the identity may not write",
    assumptions: &["the per-KG role is the authority for data access (the model stated in src/auth.rs); admins are out of scope", "a KG created by the program itself belongs to its creator"],
    floor: 100,
    watchdog: (0, 0),
};
pub static META29: Meta = Meta {
    id: "C29",
    level: "exploration",
    rule: "generated programs naming the internal graph `_internal` in every position: as the request's target KG; `.kg use/create/drop _internal` as first, middle or last line of multi-line programs, after comment lines, indented, with trailing spaces; followed by reads of users/api_keys/kg_acls and writes into them; and session re-binding (`.kg use _internal` on a session, then a second request on that session); submitted by the 12 non-admin identities; oracle: the dump of `_internal` is unchanged, no returned row contains a canary string planted in `_internal` or a stored password hash, `switched_kg` is never `_internal`, and the session is not bound to `_internal` afterwards; distinct = program x identity; non-trivial = every case",
    assumptions: &["canaries: a relation planted in _internal plus every password hash stored in users"],
    floor: 100,
    watchdog: (0, 0),
};

const KG_ROLES: [(&str, &str); 6] = [("none", "none"), ("viewer", "none"), ("viewer", "owner"), ("editor", "viewer"), ("owner", "viewer"), ("none", "editor")];

pub struct World {
    pub h: H,
    pub _scratch: Scratch,
    /// (identity, role on k1, role on k2)
    pub users: Vec<(AuthIdentity, &'static str, &'static str)>,
    pub canaries: Vec<String>,
}

pub fn restore(w: &World) {
    let kgs = w.h.h.get_storage().list_knowledge_graphs();
    for kg in ["k1", "k2"] {
        if !kgs.iter().any(|k| k == kg) {
            let _ = w.h.exec("default", &format!(".kg create {kg}"));
            for (id, a, b) in &w.users {
                let role = if kg == "k1" { a } else { b };
                if *role != "none" {
                    let _ = w.h.h.handle_kg_acl_grant(kg, &id.username, role);
                }
            }
        }
        let f = dump_facts(&w.h.h.get_storage(), kg).unwrap_or_default();
        if f.get("r").map_or(0, Vec::len) < 3 {
            let _ = w.h.exec(kg, "+r[(1, 2), (2, 3), (3, 4)]");
        }
        if !w.h.h.get_storage().list_rules_in(kg).unwrap_or_default().iter().any(|r| r == "p") {
            let _ = w.h.exec(kg, "+p(X) <- r(X, _)");
        }
    }
}

pub fn world() -> Result<World, String> {
    let scratch = Scratch::new("c27");
    let h = H::open(&scratch.path, &StoreOpts::default())?;
    h.h.bootstrap_auth();
    let mut users = Vec::new();
    for g in ["viewer", "editor"] {
        for (a, b) in KG_ROLES {
            let name = format!("u_{g}_{a}_{b}");
            h.h.handle_user_create(&name, "pw-123456789", g).map_err(|e| format!("user create: {e}"))?;
            users.push((AuthIdentity { username: name, role: if g == "viewer" { Role::Viewer } else { Role::Editor } }, a, b));
        }
    }
    let w0 = World { h, _scratch: scratch, users, canaries: vec![] };
    restore(&w0);
    // canaries inside _internal
    let _ = w0.h.h.get_storage().insert_tuples_into("_internal", "canary", vec![inputlayer::Tuple::new(vec![inputlayer::Value::string("CANARY-7f3a91")])]);
    let mut canaries = vec!["CANARY-7f3a91".to_string()];
    if let Ok(f) = dump_facts(&w0.h.h.get_storage(), "_internal") {
        for t in f.get("users").cloned().unwrap_or_default() {
            for v in t.values() {
                if let Some(s) = v.as_str() {
                    if s.starts_with("$argon2") {
                        canaries.push(s.to_string());
                    }
                }
            }
        }
    }
    Ok(World { canaries, ..w0 })
}

/// number of logical statements after comment stripping and continuation joining (mirrors the handler)
fn logical_statements(program: &str) -> usize {
    program.lines().filter(|l| !l.trim().is_empty() && !l.trim().starts_with("//") && !l.trim().starts_with('%') && !l.starts_with(char::is_whitespace)).count()
}
fn shape_of(program: &str) -> String {
    let n = logical_statements(program);
    let has_comment = program.lines().any(|l| l.trim().starts_with("//") || l.trim().starts_with('%'));
    if n > 1 {
        "multi-statement-program".to_string()
    } else if has_comment {
        "single-statement-with-comment-lines".to_string()
    } else {
        let first = program.trim().split(|c: char| c == '(' || c == '[' || c.is_whitespace()).next().unwrap_or("").to_string();
        format!("single-statement:{first}")
    }
}

fn is_write(line: &str) -> bool {
    let l = line.trim();
    (l.starts_with('+') || l.starts_with('-') || l.starts_with(".rule drop") || l.starts_with(".rule clear") || l.starts_with(".rule remove") || l.starts_with(".rel drop") || l.starts_with(".clear") || l.starts_with(".kg drop") || l.starts_with(".kg acl grant")) && !l.starts_with("//")
}

fn gen_line(r: &mut crate::rng::Rng, uniq: &mut i64, me: &str) -> String {
    *uniq += 1;
    let u = *uniq;
    let pool: Vec<String> = vec![
        "?r(X, Y)".into(),
        "?p(X)".into(),
        ".rel".into(),
        ".rule list".into(),
        ".kg list".into(),
        ".status".into(),
        format!("+r({u}, {u})"),
        format!("+r({u}, {u})"),
        format!("+r[({u}, 1), ({u}, 2)]"),
        "-r(1, 2)".into(),
        "-r(X, Y) <- r(X, Y), X > 2".into(),
        format!("-r(X, Y), +r(X, {u}) <- r(X, Y), X = 2"),
        format!("+nr{u}(X) <- r(X, _)"),
        "tmp(X) <- r(X, _)".into(),
        format!("r({u}, 0)"),
        format!("+sch{u}(a: int, b: string)"),
        ".rule drop p".into(),
        ".rule clear p".into(),
        ".rule remove p 1".into(),
        ".rel drop r".into(),
        ".clear prefix r".into(),
        ".compact".into(),
        ".kg use k2".into(),
        ".kg use k1".into(),
        ".kg use default".into(),
        format!(".kg create kx{u}"),
        ".kg drop k2".into(),
        ".kg create k2".into(),
        ".kg create default".into(),
        ".kg create k1".into(),
        ".kg use nosuchkg".into(),
        // "create if missing, then use": the create fails on an existing graph, the switch succeeds
        ".kg create k1\n.kg use k1".into(),
        ".kg create k2\n.kg use k2".into(),
        format!(".user create\nevil{u} pw-123456789 admin"),
        format!(".user\ncreate evil{u} pw-123456789 admin"),
        ".rule drop\np".into(),
        ".rel\ndrop r".into(),
        format!(".kg acl grant k1 {me} owner"),
        format!(".user create evil{u} pw-123456789 admin"),
        format!("+nr{u}(X) <-\n  r(X, _)"),
        format!("+r({u}, 7) // trailing comment"),
    ];
    r.pick(&pool).clone()
}

fn gen_program(r: &mut crate::rng::Rng, uniq: &mut i64, me: &str) -> String {
    let n = 1 + r.below(6);
    let mut lines: Vec<String> = Vec::new();
    for _ in 0..n {
        match r.below(10) {
            0 => lines.push("// a comment line".into()),
            1 => lines.push("% another comment".into()),
            2 => lines.push(String::new()),
            _ => {
                // some statements are indented (a continuation line for the pre-processor when something
                // precedes them, a statement of its own after a comment line or at the start)
                let l = gen_line(r, uniq, me);
                let after_comment = lines.last().is_some_and(|p: &String| p.starts_with("//") || p.starts_with('%'));
                lines.push(match r.below(if after_comment { 4 } else { 10 }) {
                    0 => format!("  {l}"),
                    1 => format!("\t{l}"),
                    _ => l,
                });
            }
        }
    }
    if lines.iter().all(|l| l.is_empty() || l.starts_with("//") || l.starts_with('%')) {
        lines.push(gen_line(r, uniq, me));
    }
    lines.join(if r.chance(1, 10) { "\r\n" } else { "\n" })
}

fn role_on<'a>(kg: &str, a: &'a str, b: &'a str) -> &'a str {
    match kg {
        "k1" => a,
        "k2" => b,
        _ => "none",
    }
}

pub fn run27(ctx: &mut Ctx) {
    let w = match world() {
        Ok(w) => w,
        Err(e) => {
            ctx.inconclusive(format!("setup failed: {e}"));
            return;
        }
    };
    let total = ctx.sz(2400, 48_000);
    let mut uniq: i64 = 1000 + (ctx.shard.0 as i64) * 1_000_000;
    for k in ctx.cases(total) {
        let mut r = ctx.rng(k);
        restore(&w);
        let (id, a, b) = w.users[r.below(w.users.len())].clone();
        let program = gen_program(&mut r, &mut uniq, &id.username);
        let target = *r.pick(&["k1", "k1", "k2", "default"]);
        let use_session = r.chance(1, 4);
        // 1 in 8 requests names no KG at all (the server then acts on its current KG, `default`)
        let no_kg = !use_session && r.chance(1, 8);
        let sid = if use_session { w.h.h.create_session(target).ok() } else { None };
        let Ok(before) = dump_all(&w.h.h.get_storage()) else { continue };
        ctx.eval();
        ctx.trace(|| format!("{} on {target}: {program:?}", id.username));
        let res = w.h.exec_as(sid.as_ref(), if sid.is_some() || no_kg { None } else { Some(target) }, &program, Some(&id));
        let after = dump_all(&w.h.h.get_storage()).unwrap_or_default();
        if let Some(s) = &sid {
            let _ = w.h.h.close_session(s);
        }
        let nontrivial = program.lines().any(is_write);
        if nontrivial {
            ctx.nontrivial(crate::rng::hash_str(&format!("{program}|{}", id.username)));
        }
        let mut hit = false;
        for (kg, d0) in &before {
            if kg == "_internal" {
                continue; // ACL grants by owners legitimately touch it; C29 covers direct access
            }
            let role = role_on(kg, a, b);
            if role == "editor" || role == "owner" {
                continue;
            }
            let changed = match after.get(kg) {
                None => Some("kg-dropped"),
                Some(d1) if d1 != d0 => Some("state-changed"),
                _ => None,
            };
            if let Some(what) = changed {
                let shape = shape_of(&program);
                ctx.violation(
                    k,
                    &format!("C27:unauthorised-write:{shape}"),
                    format!("{} (global {}, role on {kg}: {role}) changed {kg}: {what}; result {}", id.username, id.role, match &res { Ok(_) => "Ok".to_string(), Err(e) => format!("Err({})", e.chars().take(60).collect::<String>()) }),
                    json!({"program": program.lines().collect::<Vec<_>>(), "identity": id.username, "global_role": id.role.to_string(), "request_kg": if no_kg { "(none)" } else { target }, "via_session": use_session, "kg": kg, "kg_role": role,
                           "before": after.get(kg).map(|_| json!({"facts": facts_json(&d0.facts), "rules": d0.rules.keys().collect::<Vec<_>>(), "schemas": d0.schemas.keys().collect::<Vec<_>>()})),
                           "after": after.get(kg).map(|d1| json!({"facts": facts_json(&d1.facts), "rules": d1.rules.keys().collect::<Vec<_>>(), "schemas": d1.schemas.keys().collect::<Vec<_>>()}))}),
                );
                hit = true;
                break;
            }
        }
        // a global viewer must never create a KG
        if !hit && id.role == Role::Viewer {
            if let Some(newkg) = after.keys().find(|k| !before.contains_key(*k)) {
                ctx.violation(k, &format!("C27:global-viewer-created-kg:{}", shape_of(&program)), format!("{} created knowledge graph {newkg}", id.username), json!({"program": program.lines().collect::<Vec<_>>(), "identity": id.username}));
                hit = true;
            }
        }
        // nobody but an admin may create users
        if !hit {
            let users = |d: &Dump| d.get("_internal").and_then(|x| x.facts.get("users")).map_or(0, Vec::len);
            if users(&after) > users(&before) {
                ctx.violation(k, &format!("C27:non-admin-created-user:{}", shape_of(&program)), format!("{} created a user", id.username), json!({"program": program.lines().collect::<Vec<_>>(), "identity": id.username}));
                hit = true;
            }
        }
        // effective per-KG roles: nobody but an owner of a KG (or the creator of a re-created one) may change
        // them. Whatever happened, the baseline is put back afterwards so that the static role table the
        // oracle above relies on stays true for the following cases (the world lives for the whole shard).
        let kgs_now = w.h.h.get_storage().list_knowledge_graphs();
        for kg in ["k1", "k2"] {
            if !kgs_now.iter().any(|x| x == kg) {
                continue;
            }
            for (u, ua, ub) in &w.users {
                let base = role_on(kg, ua, ub);
                let eff = w.h.h.get_kg_role_for_user(kg, &u.username, &u.role).map(|r| r.to_string().to_lowercase()).unwrap_or_else(|| "none".to_string());
                if eff == base {
                    continue;
                }
                let actor_role = role_on(kg, a, b);
                // k1/k2 exist when the program starts and only an owner can drop them, so nobody else can
                // legitimately end up with different roles on them (not even through `.kg create`)
                if !hit && actor_role != "owner" {
                    ctx.violation(
                        k,
                        &format!("C27:acl-changed-by-non-owner:{}", shape_of(&program)),
                        format!("{} (role on {kg}: {actor_role}) changed the role of {} on {kg} from {base} to {eff}", id.username, u.username),
                        json!({"program": program.lines().collect::<Vec<_>>(), "identity": id.username, "global_role": id.role.to_string(), "request_kg": if no_kg { "(none)" } else { target }, "via_session": use_session, "kg": kg, "kg_role": actor_role}),
                    );
                    hit = true;
                }
                ctx.count("acl_restored_to_baseline");
                if base == "none" {
                    let _ = w.h.h.handle_kg_acl_revoke(kg, &u.username);
                } else {
                    let _ = w.h.h.handle_kg_acl_grant(kg, &u.username, base);
                }
            }
        }
        if !hit && nontrivial && k % 40 == 0 {
            ctx.sample(json!({"program": program.lines().collect::<Vec<_>>(), "identity": id.username, "role_k1": a, "role_k2": b, "request_kg": target, "result": res.is_ok()}));
        }
        // remove KGs the program created so that the store does not grow without bound
        for kg in after.keys().filter(|k| !before.contains_key(*k)) {
            let _ = w.h.exec("default", &format!(".kg drop {kg}"));
        }
    }
    w.h.h.shutdown();
}

pub fn run29(ctx: &mut Ctx) {
    let w = match world() {
        Ok(w) => w,
        Err(e) => {
            ctx.inconclusive(format!("setup failed: {e}"));
            return;
        }
    };
    let total = ctx.sz(1200, 24_000);
    for k in ctx.cases(total) {
        let mut r = ctx.rng(k);
        restore(&w);
        let (id, _a, _b) = w.users[r.below(w.users.len())].clone();
        let kgcmd = match r.below(8) {
            0 => ".kg create _internal".to_string(),
            1 => ".kg drop _internal".to_string(),
            2 => ".kg use _internal ".to_string(),
            3 => ".kg use  _internal".to_string(),
            _ => ".kg use _internal".to_string(),
        };
        let payload: Vec<String> = vec![
            "?users(A, B, C)".into(),
            "?users(A, B, C, D)".into(),
            "?canary(X)".into(),
            "?api_keys(A, B, C)".into(),
            "?kg_acls(A, B, C)".into(),
            "+users(\"evil\", \"x\", \"admin\")".into(),
            format!("+kg_acls(\"k1\", \"{}\", \"owner\")", id.username),
            "-canary(X) <- canary(X)".into(), // never the literal: a reply must not be able to echo it from the request
            "+leak(X) <- canary(X)".into(),
            "leak(X) <- canary(X)\n?leak(X)".into(),
            ".rel".into(),
            ".rel drop canary".into(),
            ".rule list".into(),
        ];
        let filler = ["?r(X, Y)", "// comment", "% comment", "", ".kg list", ".status", "?p(X)"];
        // shapes: 0 = request KG is _internal; 1 = kg command inside a multi-line program; 2 = session re-binding
        let shape = r.below(3);
        let mut lines: Vec<String> = Vec::new();
        let pos = r.below(3);
        if shape == 1 || shape == 2 {
            if pos > 0 {
                for _ in 0..pos {
                    lines.push(r.pick(&filler).to_string());
                }
            }
            lines.push(if r.chance(1, 4) { format!("  {kgcmd}") } else { kgcmd.clone() });
        }
        for _ in 0..(1 + r.below(2)) {
            let pl = r.pick(&payload).clone();
            lines.push(if r.chance(1, 6) { format!("  {pl}") } else { pl });
        }
        let program = lines.join("\n");
        let Ok(before) = dump_kg(&w.h.h.get_storage(), "_internal") else { continue };
        ctx.eval();
        ctx.nontrivial(crate::rng::hash_str(&format!("{program}|{}|{shape}", id.username)));
        let sid = w.h.h.create_session("k1").ok();
        let mut results = Vec::new();
        match shape {
            0 => results.push(w.h.exec_as(None, Some("_internal"), &program, Some(&id))),
            1 => results.push(w.h.exec_as(if r.chance(1, 2) { sid.as_ref() } else { None }, Some("k1"), &program, Some(&id))),
            _ => {
                // first request tries to re-bind the session, second request reads/writes through the session
                let first: String = lines[..=pos].join("\n");
                let second: String = lines[pos + 1..].join("\n");
                results.push(w.h.exec_as(sid.as_ref(), None, &first, Some(&id)));
                results.push(w.h.exec_as(sid.as_ref(), None, &second, Some(&id)));
            }
        }
        let after = dump_kg(&w.h.h.get_storage(), "_internal").unwrap_or_default();
        let bound = sid.as_ref().and_then(|s| w.h.h.session_manager().session_kg(s).ok());
        if let Some(s) = &sid {
            let _ = w.h.h.close_session(s);
        }
        let shape_name = ["request-kg-internal", "kg-command-inside-program", "session-rebinding"][shape];
        let cls = format!("{shape_name}:{}", if logical_statements(&program) > 1 { "multi-statement-program" } else { "single-statement" });
        let wit = json!({"program": program.lines().collect::<Vec<_>>(), "identity": id.username, "global_role": id.role.to_string(), "shape": shape_name,
                         "results": results.iter().map(|x| match x { Ok(q) => format!("Ok {:?}", rows_str(q).iter().take(4).collect::<Vec<_>>()), Err(e) => format!("Err {}", e.chars().take(80).collect::<String>()) }).collect::<Vec<_>>()});
        if after != before {
            ctx.violation(k, &format!("C29:internal-kg-modified:{cls}"), format!("{} changed the _internal knowledge graph", id.username), wit.clone());
        }
        for q in results.iter().flatten() {
            let text = rows_str(q).join(" ");
            if w.canaries.iter().any(|c| text.contains(c.as_str())) {
                ctx.violation(k, &format!("C29:internal-kg-read:{cls}"), format!("{} received data stored in _internal", id.username), wit.clone());
                break;
            }
            if q.switched_kg.as_deref() == Some("_internal") {
                ctx.violation(k, &format!("C29:switched-to-internal:{cls}"), format!("{} was switched to _internal", id.username), wit.clone());
                break;
            }
        }
        if bound.as_deref() == Some("_internal") {
            ctx.violation(k, &format!("C29:session-bound-to-internal:{cls}"), format!("session of {} is bound to _internal", id.username), wit.clone());
        }
        if k % 60 == 0 {
            ctx.sample(wit);
        }
        // undo damage so that later cases start from the same _internal (apart from what restore() handles)
        if after != before {
            let st = w.h.h.get_storage();
            for (rel, ts) in &after.facts {
                let extra: Vec<inputlayer::Tuple> = ts.iter().filter(|t| !before.facts.get(rel).is_some_and(|b| b.contains(t))).cloned().collect();
                if !extra.is_empty() {
                    let _ = st.delete_tuples_from("_internal", rel, extra);
                }
            }
            for (rel, ts) in &before.facts {
                let missing: Vec<inputlayer::Tuple> = ts.iter().filter(|t| !after.facts.get(rel).is_some_and(|b| b.contains(t))).cloned().collect();
                if !missing.is_empty() {
                    let _ = st.insert_tuples_into("_internal", rel, missing);
                }
            }
            for rule in after.rules.keys().filter(|x| !before.rules.contains_key(*x)) {
                let _ = st.drop_rule_in("_internal", rule);
            }
        }
    }
    let _: BTreeMap<(), ()> = BTreeMap::new();
    w.h.h.shutdown();
}
