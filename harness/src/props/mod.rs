use crate::Check;

pub mod c01;
pub mod c02;
pub mod c03;
pub mod c04;
pub mod c05;
pub mod c06;
pub mod c07;
pub mod c08;
pub mod c09;
pub mod c10;
pub mod c11;
pub mod c12;
pub mod c13;
pub mod c14;
pub mod c15;
pub mod c17;
pub mod c18;
pub mod c20;
pub mod c21;
pub mod c23;
pub mod c24;
pub mod c26;
pub mod c27;
pub mod c28;
pub mod c30;
pub mod c31;
pub mod c32;
pub mod c33;
pub mod c34;
pub mod c35;
pub mod c36;

pub fn registry() -> &'static [Check] {
    static R: &[Check] = &[
        Check { meta: &c01::META, run: c01::run, shards: (16, 16) },
        Check { meta: &c02::META, run: c02::run, shards: (16, 16) },
        Check { meta: &c03::META, run: c03::run, shards: (16, 16) },
        Check { meta: &c04::META, run: c04::run, shards: (16, 16) },
        Check { meta: &c05::META, run: c05::run, shards: (16, 16) },
        Check { meta: &c06::META, run: c06::run, shards: (16, 16) },
        Check { meta: &c07::META, run: c07::run, shards: (16, 16) },
        Check { meta: &c08::META, run: c08::run, shards: (16, 16) },
        Check { meta: &c09::META, run: c09::run, shards: (16, 16) },
        Check { meta: &c10::META, run: c10::run, shards: (8, 16) },
        Check { meta: &c11::META, run: c11::run, shards: (16, 16) },
        Check { meta: &c12::META, run: c12::run, shards: (16, 16) },
        Check { meta: &c13::META13, run: c13::run13, shards: (16, 16) },
        Check { meta: &c13::META16, run: c13::run16, shards: (16, 16) },
        Check { meta: &c14::META, run: c14::run, shards: (16, 16) },
        Check { meta: &c15::META, run: c15::run, shards: (16, 16) },
        Check { meta: &c17::META, run: c17::run, shards: (16, 16) },
        Check { meta: &c18::META18, run: c18::run18, shards: (16, 16) },
        Check { meta: &c18::META19, run: c18::run19, shards: (16, 16) },
        Check { meta: &c20::META, run: c20::run, shards: (16, 16) },
        Check { meta: &c21::META21, run: c21::run21, shards: (16, 16) },
        Check { meta: &c21::META22, run: c21::run22, shards: (16, 16) },
        Check { meta: &c23::META, run: c23::run, shards: (16, 16) },
        Check { meta: &c24::META24, run: c24::run24, shards: (16, 16) },
        Check { meta: &c24::META25, run: c24::run25, shards: (16, 16) },
        Check { meta: &c26::META, run: c26::run, shards: (8, 16) },
        Check { meta: &c27::META27, run: c27::run27, shards: (8, 16) },
        Check { meta: &c27::META29, run: c27::run29, shards: (8, 16) },
        Check { meta: &c28::META, run: c28::run, shards: (8, 16) },
        Check { meta: &c30::META, run: c30::run, shards: (16, 16) },
        Check { meta: &c31::META, run: c31::run, shards: (8, 16) },
        Check { meta: &c32::META, run: c32::run, shards: (16, 16) },
        Check { meta: &c33::META, run: c33::run, shards: (16, 16) },
        Check { meta: &c34::META, run: c34::run, shards: (16, 16) },
        Check { meta: &c35::META, run: c35::run, shards: (16, 16) },
        Check { meta: &c36::META, run: c36::run, shards: (8, 16) },
    ];
    R
}

/// helper subcommands (`ilv sub <name> …`)
pub fn sub(args: &[String]) -> i32 {
    match args.first().map(String::as_str) {
        Some("probe") => probe(&args[1]),
        Some("hprobe") => hprobe(&args[1]),
        Some("aprobe") => aprobe(&args[1], &args[2], &args[3]),
        Some("mirilane") => crate::mirilane::main(&args[1], args.get(2).and_then(|s| s.parse().ok()).unwrap_or(1)),
        Some("workload") => crate::crash::workload_main(&args[1], &args[2]),
        Some("recover") => crate::crash::recover_main(&args[1], &args[2]),
        _ => {
            eprintln!("unknown sub command {args:?}");
            2
        }
    }
}

/// `ilv sub probe <file>`: run a hand-written program under all 32 configs + RefDL.
fn probe(path: &str) -> i32 {
    use crate::eng::*;
    let text = std::fs::read_to_string(path).expect("read probe");
    let (cs, db) = crate::rparse::parse_probe(&text);
    let ptxt = crate::refdl::program_text(&cs);
    println!("program:\n{ptxt}\nedb: {db:?}");
    match crate::refdl::evaluate(&cs, &db, false) {
        Ok(m) => {
            let last = cs.last().map(|c| c.head.clone()).unwrap_or_default();
            println!("RefDL {last}: {}", rel_json(m.db.get(&last).unwrap_or(&Default::default())));
        }
        Err(e) => println!("RefDL rejects: {e:?}"),
    }
    if std::env::var("ILV_KEYS").is_ok() {
        let mut e = inputlayer::IQLEngine::new();
        load_edb(&mut e, &db);
        let r1 = e.execute_tuples(&ptxt);
        let mut keys: Vec<&String> = e.input_tuples().keys().collect();
        keys.sort();
        println!("after execute: {:?} -> input relations {keys:?}", r1.map(|v| v.len()));
    }
    if std::env::var("ILV_IR").is_ok() {
        let mut e = inputlayer::IQLEngine::new();
        load_edb(&mut e, &db);
        let _ = e.parse(&ptxt);
        let _ = e.build_ir(false);
        println!("IR before optimize:\n{:#?}", e.ir_nodes());
        let _ = e.optimize_ir(false);
        println!("IR after optimize:\n{:#?}", e.ir_nodes());
    }
    let mut by: std::collections::BTreeMap<String, Vec<String>> = Default::default();
    for bits in 0..32u8 {
        let r = run_text(&ptxt, &db, &RunOpts { bits: Some(bits), ..Default::default() });
        let key = match r {
            Ok(a) => format!("{}", rows_json(&a.rows)),
            Err(e) => format!("ERR {e}"),
        };
        by.entry(key).or_default().push(config_name(bits));
    }
    for (k, v) in by {
        println!("{k}\n    <= {}", v.join(" "));
    }
    for w in [2usize, 3, 4] {
        let r = run_text(&ptxt, &db, &RunOpts { workers: Some(w), ..Default::default() });
        println!("workers={w}: {}", match r { Ok(a) => rows_json(&a.rows).to_string(), Err(e) => format!("ERR {e}") });
    }
    0
}

/// `ilv sub hprobe <file>`: feed blocks of a file (separated by lines `----`) to a fresh Handler,
/// one `execute_program` call per block, and print what comes back.
fn hprobe(path: &str) -> i32 {
    let text = std::fs::read_to_string(path).expect("read");
    let scratch = crate::store::Scratch::new("hprobe");
    let h = crate::hnd::H::open(&scratch.path, &crate::store::StoreOpts::default()).expect("handler");
    for block in text.split("\n----\n") {
        let block = block.trim_end();
        println!(">>> {}", block.replace('\n', "\n    "));
        match h.exec("default", block) {
            Ok(r) => {
                if let Some(pt) = &r.proof_trees {
                    println!("    PROOF_TREES {}", serde_json::to_string(pt).unwrap_or_default());
                }
                println!("    OK rows={:?} total={} truncated={} switched={:?} schema={:?}", crate::hnd::rows_str(&r), r.total_count, r.truncated, r.switched_kg, r.schema.iter().map(|c| c.name.clone()).collect::<Vec<_>>());
            }
            Err(e) => println!("    ERR {e}"),
        }
    }
    0
}


/// `ilv sub aprobe <user> <kg> <file>`: run the blocks of <file> (separated by `----`) as <user> against <kg>
/// in the C27 world, then try a plain insert as the same user to show the effective permission.
fn aprobe(user: &str, kg: &str, path: &str) -> i32 {
    let w = match c27::world() {
        Ok(w) => w,
        Err(e) => {
            println!("world: {e}");
            return 2;
        }
    };
    let Some((id, a, b)) = w.users.iter().find(|(i, _, _)| i.username == user).cloned() else {
        println!("no such user");
        return 2;
    };
    println!("user {user}: k1={a} k2={b}");
    let text = std::fs::read_to_string(path).expect("read");
    for block in text.split("\n----\n") {
        println!(">>> {:?}", block);
        match w.h.exec_as(None, Some(kg), block, Some(&id)) {
            Ok(r) => println!("    OK {:?}", crate::hnd::rows_str(&r)),
            Err(e) => println!("    ERR {e}"),
        }
    }
    for k in ["k1", "k2"] {
        let r = w.h.exec_as(None, Some(k), "+r(999, 999)", Some(&id));
        println!("then +r(999,999) on {k}: {}", match r { Ok(x) => format!("OK {:?}", crate::hnd::rows_str(&x)), Err(e) => format!("ERR {e}") });
    }
    0
}
