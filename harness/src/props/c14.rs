//! C14 — maintenance operations (save / compact / auto-flush / WAL-size flush / durability mode) are invisible.
//! Oracle: a twin engine P fed the same writes with default configuration and no maintenance.

use crate::ctx::{Ctx, Meta};
use crate::store::*;
use inputlayer::{DurabilityMode, StorageEngine};
use serde_json::json;

pub static META: Meta = Meta {
    id: "C14",
    level: "exploration",
    rule: "histories of 10-40 writes (insert batches with in-batch duplicates and already-present tuples, deletes of present and absent tuples, re-inserts) over relations r/2 and s/1; engine M runs them interleaved with save_knowledge_graph / save_all / compact_all / compact_if_needed(1-3) under buffer_size {1,2,3,10000} x max_wal_size {default,256 B} x durability {immediate,batched,async}; twin P runs the writes only with the default configuration; after every step dump(M) = dump(P) and a join query answers alike; after save_all + drop both reopen to equal states; distinct = history+config; non-trivial = >= 3 maintenance ops executed",
    assumptions: &["P (same code, no maintenance) is the reference; C11/C32 tie P to the set model separately"],
    floor: 30,
    watchdog: (0, 0),
};

fn query(e: &StorageEngine) -> Result<Vec<inputlayer::Tuple>, String> {
    let mut v = e.execute_query_tuples_on("default", "q(X, Z) <- r(X, Y), r(Y, Z)").map_err(|x| format!("{x}"))?;
    v.sort();
    Ok(v)
}

pub fn run(ctx: &mut Ctx) {
    let total = ctx.sz(240, 4800);
    for k in ctx.cases(total) {
        let mut r = ctx.rng(k);
        let sm = Scratch::new("c14m");
        let sp = Scratch::new("c14p");
        let om = StoreOpts {
            buffer_size: *r.pick(&[1usize, 2, 3, 10_000]),
            max_wal: if r.chance(1, 2) { Some(256) } else { None },
            durability: *r.pick(&[DurabilityMode::Immediate, DurabilityMode::Batched, DurabilityMode::Async]),
            ..Default::default()
        };
        let op = StoreOpts::default();
        let (m0, p) = match (open(&sm.path, &om), open(&sp.path, &op)) {
            (Ok(m), Ok(p)) => (m, p),
            (a, b) => {
                ctx.inconclusive(format!("case {k}: open failed {:?} {:?}", a.err(), b.err()));
                continue;
            }
        };
        let mut mo: Option<StorageEngine> = Some(m0);
        let steps = 10 + r.below(31);
        let mut hist: Vec<String> = Vec::new();
        let mut maint = 0;
        let mut bad: Option<(String, String)> = None;
        ctx.eval();
        'steps: for _ in 0..steps {
            let m = mo.as_ref().expect("engine M");
            let rel = if r.chance(3, 4) { "r" } else { "s" };
            let ar = if rel == "r" { 2 } else { 1 };
            let roll = r.below(10);
            if roll < 4 {
                let mut b: Vec<Vec<i64>> = (0..(1 + r.below(3))).map(|_| (0..ar).map(|_| r.range(0, 3)).collect()).collect();
                if r.chance(1, 4) {
                    b.push(b[0].clone());
                }
                hist.push(format!("ins {rel} {b:?}"));
                let a = m.insert_tuples_into("default", rel, b.iter().map(|t| ituple(t)).collect()).map_err(|e| format!("{e}"));
                let c = p.insert_tuples_into("default", rel, b.iter().map(|t| ituple(t)).collect()).map_err(|e| format!("{e}"));
                if a != c {
                    bad = Some(("insert-report".into(), format!("M returned {a:?}, P returned {c:?}")));
                }
            } else if roll < 7 {
                let b: Vec<Vec<i64>> = (0..(1 + r.below(2))).map(|_| (0..ar).map(|_| r.range(0, 3)).collect()).collect();
                hist.push(format!("del {rel} {b:?}"));
                let a = m.delete_tuples_from("default", rel, b.iter().map(|t| ituple(t)).collect()).map_err(|e| format!("{e}"));
                let c = p.delete_tuples_from("default", rel, b.iter().map(|t| ituple(t)).collect()).map_err(|e| format!("{e}"));
                if a != c {
                    bad = Some(("delete-report".into(), format!("M returned {a:?}, P returned {c:?}")));
                }
            } else {
                maint += 1;
                let (name, res) = match r.below(5) {
                    0 => ("save_knowledge_graph", m.save_knowledge_graph("default").map_err(|e| format!("{e}"))),
                    1 => ("save_all", m.save_all().map_err(|e| format!("{e}"))),
                    2 => ("compact_all", m.compact_all().map_err(|e| format!("{e}"))),
                    3 => ("compact_if_needed", m.compact_if_needed(1 + r.below(3)).map(|_| ()).map_err(|e| format!("{e}"))),
                    _ => {
                        // restart of M only (clean: save_all + drop + reopen) is maintenance too
                        let _ = m.save_all();
                        mo = None; // drop M
                        match open(&sm.path, &om) {
                            Ok(e) => {
                                mo = Some(e);
                                ("restart", Ok(()))
                            }
                            Err(e) => {
                                bad = Some(("restart:reopen-failed".into(), e));
                                hist.push("restart(M)".into());
                                break 'steps;
                            }
                        }
                    }
                };
                hist.push(format!("{name}(M)"));
                if let Err(e) = res {
                    bad = Some((format!("{name}:error"), e));
                }
            }
            let m = mo.as_ref().expect("engine M");
            if bad.is_none() {
                match (dump_facts(m, "default"), dump_facts(&p, "default")) {
                    (Ok(a), Ok(b)) => {
                        if a != b {
                            let last = hist.last().cloned().unwrap_or_default();
                            let opn = last.split(|c| c == ' ' || c == '(').next().unwrap_or("").to_string();
                            bad = Some((format!("live-state-differs:after-{opn}"), format!("M={} P={}", facts_json(&a), facts_json(&b))));
                        } else if let (Ok(qa), Ok(qb)) = (query(m), query(&p)) {
                            if qa != qb {
                                bad = Some(("query-differs".into(), format!("M={qa:?} P={qb:?}")));
                            }
                        }
                    }
                    (a, b) => bad = Some(("dump-error".into(), format!("{:?} {:?}", a.err(), b.err()))),
                }
            }
            if bad.is_some() {
                break;
            }
        }
        if bad.is_none() {
            // clean shutdown of both, then restart-equality between M and P
            if let Some(m) = mo.as_ref() {
                let _ = m.save_all();
            }
            let _ = p.save_all();
            drop(mo.take());
            drop(p);
            match (open(&sm.path, &om), open(&sp.path, &op)) {
                (Ok(m2), Ok(p2)) => {
                    let (a, b) = (dump_facts(&m2, "default").unwrap_or_default(), dump_facts(&p2, "default").unwrap_or_default());
                    if a != b {
                        bad = Some(("recovered-state-differs".into(), format!("M={} P={}", facts_json(&a), facts_json(&b))));
                    }
                }
                (a, b) => bad = Some(("reopen-failed".into(), format!("M: {:?} P: {:?}", a.err(), b.err()))),
            }
        }
        let cfg = json!({"buffer_size": om.buffer_size, "max_wal": om.max_wal, "durability": format!("{:?}", om.durability)});
        match bad {
            Some((class, what)) => ctx.violation(k, &format!("C14:{class}:{:?}", om.durability).to_lowercase().replace("c14:", "C14:"), what, json!({"history": hist, "config_M": cfg})),
            None => {
                if maint >= 3 {
                    ctx.nontrivial(crate::rng::hash_str(&format!("{hist:?}{cfg}")));
                    if k % 24 == 0 {
                        ctx.sample(json!({"history": hist, "config_M": cfg}));
                    }
                }
            }
        }
        ctx.count_n("maintenance_ops", maint);
    }
}
