//! C34 — rule sets with recursion through negation are never evaluated, however they are split
//! between persistent and session rules; stratified safe sets are accepted.

use crate::ctx::{Ctx, Meta};
use crate::hnd::H;
use crate::store::*;
use serde_json::json;
use std::collections::BTreeSet;

pub static META: Meta = Meta {
    id: "C34",
    level: "exploration",
    rule: "rule sets over 3-5 unary predicates and base relation r: 2-6 clauses `p_i(X) <- r(X), [!]p_j(X) [, [!]p_k(X)]` with random signs; each set is submitted under up to 8 splits of its clauses into persistent registrations (+rule, one request each) and session rules, in two styles (session rules + query in one request; rules added to a WebSocket-style session, query in a later request); oracle = independent reachability analysis of the dependency graph: if the accepted persistent clauses together with the session clauses contain a negative edge inside a cycle, a query of a predicate on that cycle must fail; if they do not, every query must succeed and no registration that keeps the persistent set stratified may be refused; distinct = rule set + split + style; non-trivial = rule set has at least one negation and one cycle or two strata",
    assumptions: &["all generated clauses are range-restricted through r(X), so safety never decides", "a refused registration leaves the persistent set unchanged (checked through .rule list)"],
    floor: 40,
    watchdog: (0, 0),
};

#[derive(Clone, Debug)]
struct Cl {
    head: usize,
    body: Vec<(usize, bool)>, // (pred, negated)
}

fn text(c: &Cl, names: &[String]) -> String {
    let mut b = vec!["r(X)".to_string()];
    for (p, neg) in &c.body {
        b.push(format!("{}{}(X)", if *neg { "!" } else { "" }, names[*p]));
    }
    format!("{}(X) <- {}", names[c.head], b.join(", "))
}

/// predicates lying on a cycle that contains a negative edge (empty = stratifiable)
fn bad_preds(cls: &[&Cl], n: usize) -> BTreeSet<usize> {
    let mut reach = vec![vec![false; n]; n];
    for c in cls {
        for (p, _) in &c.body {
            reach[c.head][*p] = true;
        }
    }
    for k in 0..n {
        for i in 0..n {
            for j in 0..n {
                if reach[i][k] && reach[k][j] {
                    reach[i][j] = true;
                }
            }
        }
    }
    let mut bad = BTreeSet::new();
    for c in cls {
        for (p, neg) in &c.body {
            if *neg && (reach[*p][c.head] || *p == c.head) {
                // the edge head -> p closes a cycle: every predicate on that cycle is bad
                for q in 0..n {
                    let on_cycle = (q == c.head || (reach[q][c.head] && reach[c.head][q])) || (q == *p);
                    if on_cycle {
                        bad.insert(q);
                    }
                }
            }
        }
    }
    bad
}

pub fn run(ctx: &mut Ctx) {
    let total = ctx.sz(120, 2400);
    for k in ctx.cases(total) {
        let mut r = ctx.rng(k);
        let scratch = Scratch::new("c34");
        let h = match H::open(&scratch.path, &StoreOpts::default()) {
            Ok(h) => h,
            Err(e) => {
                ctx.inconclusive(format!("case {k}: {e}"));
                continue;
            }
        };
        let _ = h.exec("default", "+r[(1), (2), (3)]");
        let n = 3 + r.below(3);
        let ncl = 2 + r.below(5);
        let neg_pct = *r.pick(&[20u32, 40, 60]);
        let cls: Vec<Cl> = (0..ncl)
            .map(|_| {
                let head = r.below(n);
                let nb = 1 + r.below(2);
                Cl { head, body: (0..nb).map(|_| (r.below(n), r.chance(neg_pct, 100))).collect() }
            })
            .collect();
        let all: Vec<&Cl> = cls.iter().collect();
        let interesting = cls.iter().any(|c| c.body.iter().any(|b| b.1));
        let nsplits = (1usize << ncl).min(8);
        for si in 0..nsplits {
            let mask: usize = if (1usize << ncl) <= 8 { si } else { r.below(1 << ncl) };
            for style in 0..2 {
                // fresh predicate names per (split, style) so that earlier registrations do not interfere
                let names: Vec<String> = (0..n).map(|i| format!("p{i}_{si}_{style}")).collect();
                let mut accepted: Vec<&Cl> = Vec::new();
                let mut hist: Vec<String> = Vec::new();
                let mut violation: Option<(String, String)> = None;
                ctx.eval();
                for (i, c) in cls.iter().enumerate() {
                    if mask & (1 << i) == 0 {
                        continue;
                    }
                    let stmt = format!("+{}", text(c, &names));
                    hist.push(stmt.clone());
                    let mut with: Vec<&Cl> = accepted.clone();
                    with.push(c);
                    let ok_expected = bad_preds(&with, n).is_empty();
                    match h.exec("default", &stmt) {
                        Ok(_) => {
                            accepted.push(c);
                            // an unstratifiable persistent set that was accepted is caught by the query below
                        }
                        Err(e) => {
                            hist.push(format!("  -> refused: {}", e.chars().take(90).collect::<String>()));
                            if ok_expected && violation.is_none() {
                                violation = Some(("stratified-persistent-rule-refused".into(), format!("{stmt} refused although the persistent set stays stratified: {e}")));
                            }
                        }
                    }
                }
                let session: Vec<&Cl> = cls.iter().enumerate().filter(|(i, _)| mask & (1 << i) == 0).map(|(_, c)| c).collect();
                let sid = if style == 1 { h.h.create_session("default").ok() } else { None };
                let mut effective: Vec<&Cl> = accepted.clone();
                let mut session_text: Vec<String> = Vec::new();
                for c in &session {
                    let t = text(c, &names);
                    if let Some(s) = &sid {
                        // WebSocket style: a rule the session refuses is not part of the rule set
                        hist.push(format!("[session] {t}"));
                        let mut with = effective.clone();
                        with.push(c);
                        match h.exec_as(Some(s), None, &t, None) {
                            Ok(_) => effective.push(c),
                            Err(e) => {
                                hist.push(format!("  -> refused: {}", e.chars().take(90).collect::<String>()));
                                if bad_preds(&with, n).is_empty() && violation.is_none() {
                                    violation = Some(("stratified-session-rule-refused".into(), format!("session rule {t} refused although the rule set stays stratified: {e}")));
                                }
                            }
                        }
                    } else {
                        effective.push(c);
                        session_text.push(t);
                    }
                }
                let bad = bad_preds(&effective, n);
                let defined: BTreeSet<usize> = effective.iter().map(|c| c.head).collect();
                let targets: Vec<usize> = if bad.is_empty() { defined.iter().copied().collect() } else { bad.iter().copied().filter(|p| defined.contains(p)).collect() };
                for p in targets {
                    let q = format!("?{}(X)", names[p]);
                    let res = if let Some(s) = &sid {
                        h.exec_as(Some(s), None, &q, None)
                    } else {
                        let mut prog = session_text.clone();
                        prog.push(q.clone());
                        h.exec("default", &prog.join("\n"))
                    };
                    hist.push(format!("{q} -> {}", match &res { Ok(r) => format!("Ok({} rows)", r.rows.len()), Err(e) => format!("Err({})", e.chars().take(70).collect::<String>()) }));
                    let where_ = match (accepted.is_empty(), session.is_empty()) {
                        (false, true) => "persistent-only",
                        (true, false) => "session-only",
                        _ => "persistent+session",
                    };
                    let st = if style == 1 { "ws-session" } else { "inline" };
                    if !bad.is_empty() && res.is_ok() && violation.is_none() {
                        violation = Some((format!("unstratified-evaluated:{where_}:{st}"), format!("{q} returned Ok although its rule set has recursion through negation")));
                    }
                    if bad.is_empty() && res.is_err() && violation.is_none() {
                        violation = Some((format!("stratified-rejected:{where_}:{st}"), format!("{q} failed on a stratified safe rule set: {}", res.err().unwrap_or_default().chars().take(150).collect::<String>())));
                    }
                }
                if let Some(s) = &sid {
                    let _ = h.h.close_session(s);
                }
                if interesting {
                    ctx.nontrivial(crate::rng::hash_str(&format!("{cls:?}{mask}{style}")));
                }
                ctx.count(if bad.is_empty() { "stratified_sets" } else { "unstratified_sets" });
                if let Some((class, what)) = violation {
                    ctx.violation(k, &format!("C34:{class}"), what, json!({"rules": all.iter().map(|c| text(c, &names)).collect::<Vec<_>>(), "persistent_mask": mask, "history": hist}));
                } else if k % 20 == 0 && si == 1 && style == 0 {
                    ctx.sample(json!({"rules": all.iter().map(|c| text(c, &names)).collect::<Vec<_>>(), "persistent_mask": mask, "history": hist}));
                }
            }
        }
        h.h.shutdown();
    }
}
