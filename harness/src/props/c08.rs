//! C08 — row limits only truncate the true answer (oracle: the unlimited run of the same engine).

use crate::ctx::{Ctx, Meta};
use crate::eng::*;
use crate::gen::*;
use crate::refdl;
use crate::shrink::{features, shrink};
use serde_json::json;

pub static META: Meta = Meta {
    id: "C08",
    level: "exploration",
    rule: "generated programs with >=1 intermediate rule (negation / aggregation / joins over intermediates) x EDB; for N in {1,2,3,5,|A|,|A|+1} the answer R under set_max_result_rows(N) must satisfy |R| = min(N,|A|) and R subset of A (A = unlimited answer); non-trivial = |A| >= 2 and the program has an intermediate relation; distinct = program + EDB + N",
    assumptions: &["a limited run that returns Err is outside the property (counted, not a violation)"],
    floor: 20,
    watchdog: (0, 0),
};

/// Some(description) if limit n breaks the property on p
fn broken(p: &GenProgram, n: usize, a: &refdl::Rel) -> Option<String> {
    match run_engine(p, &RunOpts { max_rows: Some(n), ..Default::default() }) {
        Err(_) => None,
        Ok(r) => {
            let set = r.set();
            if !set.is_subset(a) {
                Some("returned a tuple outside the unlimited answer".into())
            } else if r.rows.len() != n.min(a.len()) {
                Some(format!("returned {} rows, expected min({n},{})", r.rows.len(), a.len()))
            } else {
                None
            }
        }
    }
}

fn limits(a: usize) -> Vec<usize> {
    let mut v = vec![1, 2, 3, 5, a.max(1), a + 1];
    v.sort();
    v.dedup();
    v
}

fn any_broken(p: &GenProgram) -> Option<(usize, String)> {
    let a = run_engine(p, &RunOpts::default()).ok()?.set();
    limits(a.len()).into_iter().find_map(|n| broken(p, n, &a).map(|w| (n, w)))
}

pub fn run(ctx: &mut Ctx) {
    let total = ctx.sz(200, 4000);
    let opts = GenOpts { neg: 35, agg: 25, max_idb: 3, max_edb: 12, ..GenOpts::default() };
    for k in ctx.cases(total) {
        let mut r = ctx.rng(k);
        let p = gen_program(&mut r, &opts);
        if refdl::evaluate(&p.clauses, &p.edb, false).is_err() {
            continue;
        }
        let Ok(a) = run_engine(&p, &RunOpts::default()) else {
            ctx.count("engine_rejected");
            continue;
        };
        let a = a.set();
        let has_idb = p.clauses.iter().any(|c| c.head != "q");
        for n in limits(a.len()) {
            ctx.eval();
            if a.len() >= 2 && has_idb {
                ctx.nontrivial_str(&format!("{}|{:?}|{n}", p.text(), p.edb));
            }
        }
        if a.len() >= 2 && has_idb {
            ctx.sample(json!({"case": k, "input": p.to_json(), "unlimited_size": a.len(), "limits": limits(a.len())}));
        }
        if let Some((_n, _w)) = any_broken(&p) {
            let small = shrink(&p, |c| any_broken(c).is_some(), 200);
            let (n, w) = any_broken(&small).unwrap();
            let a2 = run_engine(&small, &RunOpts::default()).map(|a| a.set()).unwrap_or_default();
            let got = run_engine(&small, &RunOpts { max_rows: Some(n), ..Default::default() }).map(|a| a.rows).unwrap_or_default();
            let f = features(&small).iter().copied().collect::<Vec<_>>().join("+");
            let multi = small.clauses.iter().any(|c| c.head != "q");
            // call-site classes: the limit reaches (a) a user-written intermediate rule, (b) a rule the
            // optimizer generated (violation disappears with all optimizations off), (c) anything else
            let kind = if w.contains("outside") { "outside-answer" } else { "wrong-size" };
            let off_ok = {
                let a0 = run_engine(&small, &RunOpts { bits: Some(0), ..Default::default() }).map(|a| a.set());
                let r0 = run_engine(&small, &RunOpts { bits: Some(0), max_rows: Some(n), ..Default::default() });
                match (a0, r0) {
                    (Ok(a0), Ok(r0)) => r0.set().is_subset(&a0) && r0.rows.len() == n.min(a0.len()),
                    _ => false,
                }
            };
            let class = if multi {
                format!("limit-applied-to-intermediate:{kind}")
            } else if off_ok {
                format!("limit-applied-to-optimizer-generated-rule:{kind}")
            } else {
                format!("single-rule:{f}:{kind}")
            };
            ctx.violation(k, &format!("C08:{class}"), format!("limit {n}: {w}"), json!({"minimised": small.to_json(), "limit": n, "limited_answer": rows_json(&got), "unlimited_answer": rel_json(&a2)}));
        }
    }
}
