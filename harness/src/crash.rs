//! Crash-image machinery for C13 / C16: a single-threaded workload process is recorded with strace,
//! the log is turned into a list of file-system mutations, every prefix of that list is materialised
//! at the original absolute path ("crash image", model A: every completed syscall is durable; model B2:
//! the last write is additionally cut short), and the real recovery (`StorageEngine::new`) runs on it
//! in a fresh process.

use crate::store::*;
use inputlayer::{parse_rule_definition, StorageEngine};
use serde_json::{json, Value as J};
use std::collections::{BTreeMap, BTreeSet};
use std::path::{Path, PathBuf};
use std::process::Command;

// ------------------------------------------------------------------------------------------------
// workload: `ilv sub workload <dir> <spec.json>` — executes the operations, prints BEGIN/ACK markers
// to stderr with raw write(2) calls so that strace orders them with the file-system mutations

fn marker(s: &str) {
    let line = format!("@@{s}\n");
    unsafe {
        libc::write(2, line.as_ptr().cast(), line.len());
    }
}

pub fn apply_op(e: &mut Option<StorageEngine>, dir: &Path, o: &StoreOpts, op: &J) -> Result<(), String> {
    let kind = op["op"].as_str().unwrap_or("");
    let kg = op["kg"].as_str().unwrap_or("default");
    let rel = op["rel"].as_str().unwrap_or("r");
    let ids: Vec<i64> = op["ids"].as_array().map(|a| a.iter().filter_map(J::as_i64).collect()).unwrap_or_default();
    let eng = e.as_ref().ok_or("no engine")?;
    let s = |x: inputlayer::storage::StorageResult<()>| x.map_err(|e| format!("{e}"));
    match kind {
        "insert" => s(eng.insert_tuples_into(kg, rel, ids.iter().map(|i| ituple(&[*i, *i + 1000])).collect()).map(|_| ())),
        "delete" => s(eng.delete_tuples_from(kg, rel, ids.iter().map(|i| ituple(&[*i, *i + 1000])).collect()).map(|_| ())),
        "save" => s(eng.save_all()),
        "save_kg" => s(eng.save_knowledge_graph(kg)),
        "compact" => s(eng.compact_all()),
        "create_kg" => s(eng.create_knowledge_graph(kg)),
        "drop_kg" => s(eng.drop_knowledge_graph(kg)),
        "drop_rel" => s(eng.drop_relation_in(kg, rel)),
        "rule" => {
            let def = parse_rule_definition(op["text"].as_str().unwrap_or("")).map_err(|e| e.to_string())?;
            s(eng.register_rule_in(kg, &def).map(|_| ()))
        }
        "drop_rule" => s(eng.drop_rule_in(kg, op["name"].as_str().unwrap_or(""))),
        "clear_rule" => s(eng.clear_rule_in(kg, op["name"].as_str().unwrap_or(""))),
        "remove_clause" => s(eng.remove_rule_clause_in(kg, op["name"].as_str().unwrap_or(""), op["index"].as_u64().unwrap_or(0) as usize).map(|_| ())),
        "schema" => {
            let mut sc = inputlayer::schema::RelationSchema::new(op["name"].as_str().unwrap_or("s"));
            for (i, t) in op["cols"].as_array().cloned().unwrap_or_default().iter().enumerate() {
                let ty = inputlayer::schema::SchemaType::from_str(t.as_str().unwrap_or("int")).unwrap_or(inputlayer::schema::SchemaType::Int);
                sc = sc.with_column(inputlayer::schema::ColumnSchema::new(format!("c{i}"), ty));
            }
            s(eng.register_schema_in(kg, sc))
        }
        "remove_schema" => s(eng.remove_schema_in(kg, op["name"].as_str().unwrap_or("")).map(|_| ())),
        "restart" => {
            *e = None;
            *e = Some(open(dir, o)?);
            Ok(())
        }
        other => Err(format!("unknown op {other}")),
    }
}

pub fn opts_from(spec: &J) -> StoreOpts {
    StoreOpts { buffer_size: spec["buffer_size"].as_u64().unwrap_or(10_000) as usize, max_wal: spec["max_wal"].as_u64(), ..Default::default() }
}

pub fn workload_main(dir: &str, spec_path: &str) -> i32 {
    let spec: J = serde_json::from_str(&std::fs::read_to_string(spec_path).expect("spec")).expect("spec json");
    let o = opts_from(&spec);
    let dir = PathBuf::from(dir);
    let mut e = match open(&dir, &o) {
        Ok(e) => Some(e),
        Err(x) => {
            eprintln!("open failed: {x}");
            return 3;
        }
    };
    marker("READY");
    for (i, op) in spec["ops"].as_array().cloned().unwrap_or_default().iter().enumerate() {
        marker(&format!("BEGIN {i}"));
        match apply_op(&mut e, &dir, &o, op) {
            Ok(()) => marker(&format!("ACK {i}")),
            Err(x) => marker(&format!("ERR {i} {}", x.replace('\n', " "))),
        }
    }
    marker("DONE");
    0
}

/// `ilv sub recover <dir> <spec.json>`: reopen and print the complete dump as one JSON line
pub fn recover_main(dir: &str, spec_path: &str) -> i32 {
    let spec: J = serde_json::from_str(&std::fs::read_to_string(spec_path).unwrap_or_else(|_| "{}".into())).unwrap_or(json!({}));
    let o = opts_from(&spec);
    match open(Path::new(dir), &o) {
        Err(e) => {
            println!("@@RECOVERY {}", json!({"open": false, "error": e}));
            1
        }
        Ok(e) => match dump_all(&e) {
            Ok(d) => {
                println!("@@RECOVERY {}", json!({"open": true, "dump": dump_simple(&d)}));
                0
            }
            Err(x) => {
                println!("@@RECOVERY {}", json!({"open": false, "error": format!("dump failed: {x}")}));
                1
            }
        },
    }
}

/// kg -> {facts: rel -> sorted ids, rules: name -> text, schemas: [names]}
pub fn dump_simple(d: &Dump) -> J {
    let mut out = serde_json::Map::new();
    for (kg, k) in d {
        let facts: BTreeMap<String, Vec<i64>> = k.facts.iter().map(|(r, ts)| (r.clone(), ts.iter().filter_map(|t| t.values()[0].as_i64()).collect())).collect();
        out.insert(kg.clone(), json!({"facts": facts, "rules": k.rules, "schemas": k.schemas.keys().collect::<Vec<_>>()}));
    }
    J::Object(out)
}

// ------------------------------------------------------------------------------------------------
// strace log -> file-system mutations

#[derive(Clone, Debug)]
pub enum Mut {
    /// create/truncate/open: (path, truncate)
    Open(String, bool),
    Write(String, u64, Vec<u8>),
    Truncate(String, u64),
    Rename(String, String),
    Unlink(String),
    Mkdir(String),
    Rmdir(String),
    Fsync(String),
    Marker(String),
}

fn unescape(s: &str) -> Vec<u8> {
    // strace -xx: every byte as \xHH (we also accept plain characters and the usual escapes)
    let b = s.as_bytes();
    let mut out = Vec::with_capacity(b.len() / 4);
    let mut i = 0;
    while i < b.len() {
        if b[i] == b'\\' && i + 1 < b.len() {
            match b[i + 1] {
                b'x' if i + 3 < b.len() => {
                    let h = std::str::from_utf8(&b[i + 2..i + 4]).unwrap_or("00");
                    out.push(u8::from_str_radix(h, 16).unwrap_or(0));
                    i += 4;
                }
                b'n' => { out.push(b'\n'); i += 2; }
                b't' => { out.push(b'\t'); i += 2; }
                b'r' => { out.push(b'\r'); i += 2; }
                b'"' => { out.push(b'"'); i += 2; }
                b'\\' => { out.push(b'\\'); i += 2; }
                _ => { out.push(b[i + 1]); i += 2; }
            }
        } else {
            out.push(b[i]);
            i += 1;
        }
    }
    out
}

/// first quoted string starting at or after `from`: (content, index after closing quote)
fn quoted(line: &str, from: usize) -> Option<(String, usize)> {
    let start = line[from..].find('"')? + from + 1;
    let b = line.as_bytes();
    let mut i = start;
    while i < b.len() {
        if b[i] == b'\\' {
            i += 2;
            continue;
        }
        if b[i] == b'"' {
            return Some((line[start..i].to_string(), i + 1));
        }
        i += 1;
    }
    None
}

fn path_str(s: &str) -> String {
    String::from_utf8_lossy(&unescape(s)).to_string()
}

/// path annotated by -y after an fd: `5</a/b>` -> /a/b
fn fd_path(arg: &str) -> Option<String> {
    let a = arg.find('<')?;
    let b = arg.rfind('>')?;
    Some(path_str(&arg[a + 1..b]))
}

pub struct Parsed {
    pub muts: Vec<Mut>,
    pub unparsed_relevant: usize,
}

pub fn parse_strace(log: &str, root: &str) -> Parsed {
    let mut muts = Vec::new();
    let mut unparsed = 0usize;
    // per (pid, fd): (path, offset, append)
    let mut fds: BTreeMap<(String, String), (String, u64, bool)> = BTreeMap::new();
    let mut sizes: BTreeMap<String, u64> = BTreeMap::new();
    for raw in log.lines() {
        let (pid, line) = match raw.split_once(' ') {
            Some((p, rest)) if p.chars().all(|c| c.is_ascii_digit()) => (p.to_string(), rest.trim_start()),
            _ => ("0".to_string(), raw),
        };
        if line.contains("<unfinished") || line.contains("resumed>") {
            if line.contains(root) {
                unparsed += 1;
            }
            continue;
        }
        let Some(par) = line.find('(') else { continue };
        let name = &line[..par];
        let ret_ok = !line.contains(" = -1 ");
        let args = &line[par + 1..];
        match name {
            "write" | "pwrite64" => {
                let Some(comma) = args.find(", ") else { continue };
                let fdarg = &args[..comma];
                let fdnum = fdarg.split('<').next().unwrap_or("").to_string();
                let Some((data, after)) = quoted(args, comma) else { continue };
                let bytes = unescape(&data);
                if fdnum == "2" {
                    let text = String::from_utf8_lossy(&bytes).to_string();
                    for l in text.lines() {
                        if let Some(m) = l.strip_prefix("@@") {
                            muts.push(Mut::Marker(m.to_string()));
                        }
                    }
                    continue;
                }
                let Some(p) = fd_path(fdarg) else { continue };
                if !p.starts_with(root) || !ret_ok {
                    continue;
                }
                let written: usize = line.rsplit(" = ").next().and_then(|x| x.trim().parse().ok()).unwrap_or(bytes.len());
                let bytes = bytes[..written.min(bytes.len())].to_vec();
                let key = (pid.clone(), fdnum);
                let (off, app) = fds.get(&key).map_or((0, false), |x| (x.1, x.2));
                let offset = if name == "pwrite64" {
                    args[after..].trim_start_matches(|c: char| c == ',' || c == ' ').split(|c: char| c == ',' || c == ')').nth(1).and_then(|x| x.trim().parse::<u64>().ok()).unwrap_or(off)
                } else if app {
                    *sizes.get(&p).unwrap_or(&0)
                } else {
                    off
                };
                let end = offset + bytes.len() as u64;
                let sz = sizes.entry(p.clone()).or_insert(0);
                *sz = (*sz).max(end);
                if name == "write" {
                    if let Some(e) = fds.get_mut(&key) {
                        e.1 = end;
                    }
                }
                muts.push(Mut::Write(p, offset, bytes));
            }
            "openat" | "creat" | "open" => {
                let Some((pth, after)) = quoted(args, 0) else { continue };
                let p = path_str(&pth);
                if !ret_ok {
                    continue;
                }
                let flags = &args[after..];
                let fdnum = line.rsplit(" = ").next().unwrap_or("").split('<').next().unwrap_or("").trim().to_string();
                let full = fd_path(line.rsplit(" = ").next().unwrap_or("")).unwrap_or(p.clone());
                let trunc = flags.contains("O_TRUNC") || name == "creat";
                let creat = flags.contains("O_CREAT") || name == "creat";
                let app = flags.contains("O_APPEND");
                fds.insert((pid.clone(), fdnum), (full.clone(), 0, app));
                if full.starts_with(root) && (trunc || creat) && !flags.contains("O_DIRECTORY") {
                    if trunc {
                        sizes.insert(full.clone(), 0);
                    }
                    muts.push(Mut::Open(full, trunc));
                }
            }
            "lseek" => {
                let fdarg = args.split(',').next().unwrap_or("");
                let fdnum = fdarg.split('<').next().unwrap_or("").to_string();
                if let Some(pos) = line.rsplit(" = ").next().and_then(|x| x.trim().parse::<u64>().ok()) {
                    if let Some(e) = fds.get_mut(&(pid.clone(), fdnum)) {
                        e.1 = pos;
                    }
                }
            }
            "ftruncate" => {
                let fdarg = args.split(',').next().unwrap_or("");
                if let (Some(p), Some(len)) = (fd_path(fdarg), args.split(',').nth(1).and_then(|x| x.trim().trim_end_matches(')').split(')').next().and_then(|y| y.trim().parse::<u64>().ok()))) {
                    if p.starts_with(root) && ret_ok {
                        sizes.insert(p.clone(), len);
                        muts.push(Mut::Truncate(p, len));
                    }
                }
            }
            "rename" | "renameat" | "renameat2" => {
                let Some((a, after)) = quoted(args, 0) else { continue };
                let Some((b, _)) = quoted(args, after) else { continue };
                let (a, b) = (path_str(&a), path_str(&b));
                if ret_ok && (a.starts_with(root) || b.starts_with(root)) {
                    if let Some(s) = sizes.remove(&a) {
                        sizes.insert(b.clone(), s);
                    }
                    muts.push(Mut::Rename(a, b));
                }
            }
            "unlink" | "unlinkat" => {
                let Some((a, after)) = quoted(args, 0) else { continue };
                let a = path_str(&a);
                if ret_ok && a.starts_with(root) {
                    sizes.remove(&a);
                    if args[after..].contains("AT_REMOVEDIR") {
                        muts.push(Mut::Rmdir(a));
                    } else {
                        muts.push(Mut::Unlink(a));
                    }
                }
            }
            "rmdir" => {
                if let Some((a, _)) = quoted(args, 0) {
                    let a = path_str(&a);
                    if ret_ok && a.starts_with(root) {
                        muts.push(Mut::Rmdir(a));
                    }
                }
            }
            "mkdir" | "mkdirat" => {
                if let Some((a, _)) = quoted(args, 0) {
                    let a = path_str(&a);
                    if ret_ok && a.starts_with(root) {
                        muts.push(Mut::Mkdir(a));
                    }
                }
            }
            "fsync" | "fdatasync" => {
                if let Some(p) = fd_path(args) {
                    if p.starts_with(root) {
                        muts.push(Mut::Fsync(p));
                    }
                }
            }
            _ => {}
        }
    }
    Parsed { muts, unparsed_relevant: unparsed }
}

// ------------------------------------------------------------------------------------------------
// virtual file system

#[derive(Clone, Default)]
pub struct Vfs {
    pub files: BTreeMap<String, Vec<u8>>,
    pub dirs: BTreeSet<String>,
}
impl Vfs {
    pub fn apply(&mut self, m: &Mut) {
        match m {
            Mut::Open(p, trunc) => {
                let e = self.files.entry(p.clone()).or_default();
                if *trunc {
                    e.clear();
                }
            }
            Mut::Write(p, off, data) => {
                let e = self.files.entry(p.clone()).or_default();
                let end = *off as usize + data.len();
                if e.len() < end {
                    e.resize(end, 0);
                }
                e[*off as usize..end].copy_from_slice(data);
            }
            Mut::Truncate(p, len) => {
                self.files.entry(p.clone()).or_default().resize(*len as usize, 0);
            }
            Mut::Rename(a, b) => {
                if let Some(d) = self.files.remove(a) {
                    self.files.insert(b.clone(), d);
                } else if self.dirs.remove(a) {
                    // directory rename: move everything below
                    self.dirs.insert(b.clone());
                    let moved: Vec<String> = self.files.keys().filter(|k| k.starts_with(&format!("{a}/"))).cloned().collect();
                    for k in moved {
                        let d = self.files.remove(&k).unwrap_or_default();
                        self.files.insert(format!("{b}{}", &k[a.len()..]), d);
                    }
                }
            }
            Mut::Unlink(p) => {
                self.files.remove(p);
            }
            Mut::Mkdir(p) => {
                self.dirs.insert(p.clone());
            }
            Mut::Rmdir(p) => {
                self.dirs.remove(p);
                let pre = format!("{p}/");
                self.files.retain(|k, _| !k.starts_with(&pre));
                self.dirs.retain(|k| !k.starts_with(&pre));
            }
            Mut::Fsync(_) | Mut::Marker(_) => {}
        }
    }
    pub fn materialise(&self, root: &Path) -> std::io::Result<()> {
        let _ = std::fs::remove_dir_all(root);
        std::fs::create_dir_all(root)?;
        for d in &self.dirs {
            std::fs::create_dir_all(d)?;
        }
        for (p, data) in &self.files {
            if let Some(parent) = Path::new(p).parent() {
                std::fs::create_dir_all(parent)?;
            }
            std::fs::write(p, data)?;
        }
        Ok(())
    }
}

/// run the workload under strace; returns (log text, exit ok)
pub fn record(dir: &Path, spec_path: &Path, log_path: &Path) -> Result<String, String> {
    let exe = std::env::current_exe().map_err(|e| e.to_string())?;
    let st = Command::new("strace")
        .args(["-f", "-y", "-xx", "-s", "4194304", "-e", "trace=openat,open,creat,write,pwrite64,lseek,ftruncate,rename,renameat,renameat2,unlink,unlinkat,rmdir,mkdir,mkdirat,fsync,fdatasync", "-o"])
        .arg(log_path)
        .arg(&exe)
        .args(["sub", "workload"])
        .arg(dir)
        .arg(spec_path)
        .stdout(std::process::Stdio::null())
        .stderr(std::process::Stdio::null())
        .status()
        .map_err(|e| format!("cannot run strace: {e}"))?;
    if !st.success() {
        return Err(format!("workload exited with {st}"));
    }
    std::fs::read_to_string(log_path).map_err(|e| e.to_string())
}

/// run the real recovery on `dir` in a fresh process; returns the parsed @@RECOVERY line
pub fn recover(dir: &Path, spec_path: &Path) -> J {
    let exe = match std::env::current_exe() {
        Ok(e) => e,
        Err(e) => return json!({"open": false, "error": e.to_string(), "harness": true}),
    };
    let out = Command::new(exe).args(["sub", "recover"]).arg(dir).arg(spec_path).stderr(std::process::Stdio::null()).output();
    match out {
        Err(e) => json!({"open": false, "error": e.to_string(), "harness": true}),
        Ok(o) => {
            let text = String::from_utf8_lossy(&o.stdout);
            for l in text.lines() {
                if let Some(j) = l.strip_prefix("@@RECOVERY ") {
                    if let Ok(v) = serde_json::from_str::<J>(j) {
                        return v;
                    }
                }
            }
            json!({"open": false, "error": format!("recovery process died ({}) without a report", o.status), "crashed": true})
        }
    }
}
