//! Tiny parser for the RefDL surface syntax printed by `refdl::Clause` (probing / replay aid).

use crate::refdl::*;

fn split_top(s: &str, sep: char) -> Vec<String> {
    let (mut out, mut cur, mut depth, mut in_str) = (Vec::new(), String::new(), 0i32, false);
    for ch in s.chars() {
        match ch {
            '"' => {
                in_str = !in_str;
                cur.push(ch);
            }
            '(' | '<' if !in_str && (ch == '(' || cur.chars().last().is_some_and(|c| c.is_alphanumeric() || c == '_')) => {
                depth += 1;
                cur.push(ch);
            }
            ')' if !in_str => {
                depth -= 1;
                cur.push(ch);
            }
            '>' if !in_str && depth > 0 && cur.contains('<') && !cur.ends_with(' ') => {
                depth -= 1;
                cur.push(ch);
            }
            c if c == sep && depth == 0 && !in_str => {
                out.push(cur.trim().to_string());
                cur.clear();
            }
            _ => cur.push(ch),
        }
    }
    if !cur.trim().is_empty() {
        out.push(cur.trim().to_string());
    }
    out
}

pub fn parse_term(s: &str) -> Term {
    let s = s.trim();
    if s == "_" {
        Term::Wild
    } else if let Ok(i) = s.parse::<i64>() {
        Term::C(V::I(i))
    } else if s.starts_with('"') {
        Term::C(V::S(s.trim_matches('"').to_string()))
    } else {
        Term::Var(s.to_string())
    }
}

fn parse_atom(s: &str) -> Option<Atom> {
    let p = s.find('(')?;
    let rel = s[..p].trim().to_string();
    let inner = s[p + 1..].trim_end().strip_suffix(')')?;
    let args = if inner.trim().is_empty() { vec![] } else { split_top(inner, ',').iter().map(|a| parse_term(a)).collect() };
    Some(Atom { rel, args })
}

fn parse_arith(s: &str) -> Arith {
    let s = s.trim();
    // find top-level operator (printed form is "L op R" with parenthesised sub-terms)
    let mut depth = 0;
    let cs: Vec<char> = s.chars().collect();
    for i in 0..cs.len() {
        match cs[i] {
            '(' => depth += 1,
            ')' => depth -= 1,
            '+' | '-' | '*' if depth == 0 && i > 0 && cs[i - 1] == ' ' && i + 1 < cs.len() && cs[i + 1] == ' ' => {
                let op = match cs[i] {
                    '+' => Op::Add,
                    '-' => Op::Sub,
                    _ => Op::Mul,
                };
                let l: String = cs[..i].iter().collect();
                let r: String = cs[i + 1..].iter().collect();
                return Arith::Bin(Box::new(parse_arith(&l)), op, Box::new(parse_arith(&r)));
            }
            _ => {}
        }
    }
    if s.starts_with('(') && s.ends_with(')') {
        return parse_arith(&s[1..s.len() - 1]);
    }
    Arith::T(parse_term(s))
}

fn parse_lit(s: &str) -> Option<Lit> {
    let s = s.trim();
    if let Some(r) = s.strip_prefix('!') {
        return parse_atom(r).map(Lit::Neg);
    }
    for (sym, op) in [("!=", Cmp::Ne), ("<=", Cmp::Le), (">=", Cmp::Ge), ("<", Cmp::Lt), (">", Cmp::Gt), ("=", Cmp::Eq)] {
        if let Some(p) = s.find(&format!(" {sym} ")) {
            let l = s[..p].trim();
            let r = s[p + sym.len() + 2..].trim();
            if op == Cmp::Eq && (r.contains(" + ") || r.contains(" - ") || r.contains(" * ")) {
                return Some(Lit::Assign(l.to_string(), parse_arith(r)));
            }
            return Some(Lit::Cmp(parse_term(l), op, parse_term(r)));
        }
    }
    parse_atom(s).map(Lit::Pos)
}

pub fn parse_clause(line: &str) -> Option<Clause> {
    let (h, b) = line.split_once("<-")?;
    let p = h.find('(')?;
    let head = h[..p].trim().to_string();
    let inner = h[p + 1..].trim_end().strip_suffix(')')?;
    let hargs = split_top(inner, ',')
        .iter()
        .map(|a| {
            for f in [AggFn::CountDistinct, AggFn::Count, AggFn::Sum, AggFn::Min, AggFn::Max, AggFn::Avg] {
                if let Some(r) = a.strip_prefix(&format!("{}<", f.name())) {
                    return HeadArg::Agg(f, r.trim_end_matches('>').trim().to_string());
                }
            }
            HeadArg::T(parse_term(a))
        })
        .collect();
    let body = split_top(b, ',').iter().map(|l| parse_lit(l)).collect::<Option<Vec<_>>>()?;
    Some(Clause { head, hargs, body })
}

/// Parse a probe file: `+rel(1, 2)` lines are facts, other non-empty lines are clauses.
pub fn parse_probe(text: &str) -> (Vec<Clause>, Db) {
    let mut cs = Vec::new();
    let mut db = Db::new();
    for line in text.lines() {
        let line = line.trim();
        if line.is_empty() || line.starts_with("//") {
            continue;
        }
        if let Some(f) = line.strip_prefix('+') {
            if let Some(a) = parse_atom(f) {
                let t: Tup = a.args.iter().filter_map(|t| if let Term::C(v) = t { Some(v.clone()) } else { None }).collect();
                db.entry(a.rel).or_default().insert(t);
            }
        } else if let Some(c) = parse_clause(line) {
            cs.push(c);
        } else {
            eprintln!("cannot parse: {line}");
        }
    }
    (cs, db)
}
