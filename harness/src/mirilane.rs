//! Small in-process workloads meant to run under Miri (`cargo +nightly miri run -- sub mirilane <which> <seed>`):
//! the only `unsafe` block of the crate (the lifetime extension in `HnswIndex::rebuild_hnsw`) and the
//! process-global LSH hyperplane cache used from several threads. Miri reports undefined behaviour,
//! use-after-free, invalid borrows and data races; the behavioural oracles of C24/C26 run alongside in a
//! reduced form. Prints `MIRILANE ok ops=<n>` or `MIRILANE violation <what>`; exit code 0 / 3.

use crate::rng::Rng;
use inputlayer::index_manager::{DistanceMetric, HnswConfig, Index};
use inputlayer::vector_ops::{clear_lsh_cache, configure_lsh_cache_size, lsh_bucket};
use inputlayer::HnswIndex;
use std::collections::BTreeMap;

fn hnsw(seed: u64) -> Result<u64, String> {
    let mut r = Rng::new(seed ^ 0x4859);
    let dim = 2 + r.below(2);
    let metric = *r.pick(&[DistanceMetric::Euclidean, DistanceMetric::Cosine]);
    let mut idx = HnswIndex::new(HnswConfig { m: 4, ef_construction: 16, ef_search: 16, metric });
    let mut live: BTreeMap<usize, Vec<f32>> = BTreeMap::new();
    let mut ops = 0u64;
    let vecf = |r: &mut Rng| -> Vec<f32> { (0..dim).map(|_| 1.0 + r.below(9) as f32).collect() };
    let nops = 10 + r.below(4);
    for step in 0..nops {
        match if step < 4 { 0 } else { r.below(6) } {
            0 | 1 => {
                let id = r.below(8);
                let v = vecf(&mut r);
                if idx.insert(id, &v).is_ok() {
                    live.insert(id, v);
                }
            }
            2 => {
                let id = r.below(8);
                idx.delete(id);
                live.remove(&id);
            }
            3 => {
                let all: Vec<(usize, Vec<f32>)> = live.iter().map(|(k, v)| (*k, v.clone())).collect();
                idx.rebuild(&all).map_err(|e| format!("rebuild failed: {e}"))?;
            }
            _ => {}
        }
        ops += 1;
        let q = vecf(&mut r);
        let k = 1 + r.below(4);
        let res = idx.search(&q, k, Some(32));
        ops += 1;
        if res.len() > k {
            return Err(format!("search returned {} > k={k} results", res.len()));
        }
        let mut last = f64::NEG_INFINITY;
        let mut seen = std::collections::BTreeSet::new();
        for (id, d) in &res {
            if !live.contains_key(id) {
                return Err(format!("search returned id {id} which is not live ({:?})", live.keys().collect::<Vec<_>>()));
            }
            if !seen.insert(*id) {
                return Err(format!("search returned id {id} twice"));
            }
            if *d + 1e-6 < last {
                return Err(format!("distances decrease: {last} then {d}"));
            }
            last = *d;
        }
    }
    drop(idx);
    Ok(ops)
}

fn lsh(seed: u64) -> Result<u64, String> {
    let mut r = Rng::new(seed ^ 0x15A);
    let vs: Vec<Vec<f32>> = (0..3).map(|_| (0..3).map(|_| r.below(9) as f32 - 4.0).collect()).collect();
    clear_lsh_cache();
    let cold: Vec<i64> = vs.iter().enumerate().map(|(i, v)| lsh_bucket(v, i as i64, 4)).collect();
    configure_lsh_cache_size(2);
    let hs: Vec<_> = (0..3usize)
        .map(|t| {
            let vs = vs.clone();
            std::thread::spawn(move || {
                let mut out = Vec::new();
                for round in 0..2 {
                    for (i, v) in vs.iter().enumerate() {
                        if t == 2 && round == 1 && i == 1 {
                            clear_lsh_cache();
                        }
                        out.push((i, lsh_bucket(v, i as i64, 4)));
                    }
                }
                out
            })
        })
        .collect();
    let mut ops = 0u64;
    for h in hs {
        for (i, b) in h.join().map_err(|_| "thread panicked".to_string())? {
            ops += 1;
            if b != cold[i] {
                return Err(format!("bucket of vector {i} is {b} under concurrent use, {} on a cold cache", cold[i]));
            }
        }
    }
    configure_lsh_cache_size(1024);
    Ok(ops)
}

pub fn main(which: &str, seed: u64) -> i32 {
    let res = match which {
        "hnsw" => hnsw(seed),
        "lsh" => lsh(seed),
        _ => Err(format!("unknown lane {which}")),
    };
    match res {
        Ok(n) => {
            println!("MIRILANE ok lane={which} seed={seed} ops={n}");
            0
        }
        Err(e) => {
            println!("MIRILANE violation lane={which} seed={seed} {e}");
            3
        }
    }
}

// ---------------------------------------------------------------------------------------------
// Parent side: run the lanes under the instrumented builds and fold the outcome into the report.

use crate::ctx::{Report, Violation};
use std::process::Command;

fn harness_dir() -> std::path::PathBuf {
    std::path::PathBuf::from(std::env::var("ILV_HARNESS_DIR").unwrap_or_else(|_| "/verif/harness".into()))
}

/// Outcome of one instrumented process: Ok(ops), Err((is_violation, text)).
fn classify(out: &std::process::Output) -> Result<u64, (bool, String)> {
    let text = format!("{}\n{}", String::from_utf8_lossy(&out.stdout), String::from_utf8_lossy(&out.stderr));
    let line = |pat: &str| text.lines().find(|l| l.contains(pat)).map(|l| l.trim().chars().take(240).collect::<String>());
    if let Some(l) = line("Undefined Behavior").or_else(|| line("Data race detected")).or_else(|| line("ERROR: AddressSanitizer")).or_else(|| line("memory leaked")) {
        return Err((true, l));
    }
    if let Some(l) = line("MIRILANE violation") {
        return Err((true, l));
    }
    if let Some(l) = line("MIRILANE ok") {
        let ops = l.split("ops=").nth(1).and_then(|s| s.trim().parse().ok()).unwrap_or(0);
        return Ok(ops);
    }
    Err((false, text.lines().rev().filter(|l| !l.trim().is_empty()).take(3).collect::<Vec<_>>().join(" | ").chars().take(300).collect()))
}

fn record(report: &mut Report, id: &str, tool: &str, lane: &str, seed: u64, res: Result<u64, (bool, String)>, replay_cmd: &str) {
    match res {
        Ok(ops) => {
            *report.counters.entry(format!("{tool}_lane:{lane}:processes")).or_insert(0) += 1;
            *report.counters.entry(format!("{tool}_lane:{lane}:operations")).or_insert(0) += ops;
        }
        Err((true, what)) => {
            let class = if what.contains("MIRILANE violation") { "oracle" } else { "sanitizer-report" };
            report.violations.push(Violation {
                signature: format!("{id}:{tool}-lane:{lane}:{class}"),
                what: format!("{tool} lane `{lane}` seed {seed}: {what}"),
                case: u64::MAX - seed,
                witness: serde_json::json!({"tool": tool, "lane": lane, "seed": seed, "reproduce": replay_cmd, "report": what}),
            });
        }
        Err((false, what)) => {
            *report.counters.entry(format!("{tool}_lane:{lane}:inconclusive")).or_insert(0) += 1;
            if report.inconclusive.len() < 20 {
                report.inconclusive.push(format!("{tool} lane `{lane}` seed {seed} could not be decided (tool/build problem, not a verdict): {what}"));
            }
        }
    }
}

/// Thorough-tier supplement: C26 runs the LSH-cache lane under Miri (UB + data-race detection);
/// C24/C25 run the HNSW lane under AddressSanitizer (hnsw_rs calls clock_gettime(CLOCK_PROCESS_CPUTIME_ID),
/// which Miri does not implement). A lane that cannot be built or run is inconclusive, never a violation.
pub fn sanitizer_lanes(id: &str, seed: u64, report: &mut Report) {
    let dir = harness_dir();
    match id {
        "C26" => {
            for s in 0..4u64 {
                let sd = seed.wrapping_mul(100) + s;
                let replay = format!("cd {} && MIRIFLAGS=-Zmiri-disable-isolation cargo +nightly miri run --offline -- sub mirilane lsh {sd}", dir.display());
                let out = Command::new("cargo").current_dir(&dir).env("MIRIFLAGS", "-Zmiri-disable-isolation").env("CARGO_NET_OFFLINE", "true").args(["+nightly", "miri", "run", "--offline", "--", "sub", "mirilane", "lsh", &sd.to_string()]).output();
                match out {
                    Ok(o) => record(report, id, "miri", "lsh", sd, classify(&o), &replay),
                    Err(e) => record(report, id, "miri", "lsh", sd, Err((false, format!("cannot start cargo miri: {e}"))), &replay),
                }
            }
        }
        "C24" | "C25" => {
            let flags = "-Zsanitizer=address -Cforce-frame-pointers=yes --cfg inputlayer_verif";
            let build = Command::new("cargo").current_dir(&dir).env("RUSTFLAGS", flags).env("CARGO_NET_OFFLINE", "true").args(["+nightly", "build", "--release", "--target", "x86_64-unknown-linux-gnu", "--offline"]).output();
            let exe = std::path::PathBuf::from("/verif/target/x86_64-unknown-linux-gnu/release/ilv");
            if !matches!(&build, Ok(o) if o.status.success()) || !exe.exists() {
                record(report, id, "asan", "hnsw", seed, Err((false, "AddressSanitizer build of the harness failed".into())), "");
                return;
            }
            for s in 0..200u64 {
                let sd = seed.wrapping_mul(1000) + s;
                let replay = format!("cd {} && RUSTFLAGS=\"{flags}\" cargo +nightly build --release --target x86_64-unknown-linux-gnu --offline && {} sub mirilane hnsw {sd}", dir.display(), exe.display());
                let out = Command::new(&exe).env("ASAN_OPTIONS", "detect_leaks=1:halt_on_error=1").args(["sub", "mirilane", "hnsw", &sd.to_string()]).output();
                match out {
                    Ok(o) => record(report, id, "asan", "hnsw", sd, classify(&o), &replay),
                    Err(e) => record(report, id, "asan", "hnsw", sd, Err((false, format!("cannot start: {e}"))), &replay),
                }
            }
        }
        _ => {}
    }
}
