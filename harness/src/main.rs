#![allow(dead_code)]
//! ilv — runtime monitors for inputlayer (one subcommand per property).

mod mirilane;
mod crash;
mod ctx;
mod eng;
mod gen;
mod hnd;
mod props;
mod refdl;
mod rng;
mod rparse;
mod sched;
mod shrink;
mod store;

use ctx::{Ctx, Meta, Report, Tier};
use std::process::{Command, Stdio};
use std::time::Instant;

/// an explicit scheduling point for harness-side threads (a reader about to issue a call)
pub fn sched_point() {
    inputlayer::verif_hooks::point("harness.before_call");
}

pub struct Check {
    pub meta: &'static Meta,
    pub run: fn(&mut Ctx),
    /// number of worker processes (quick, thorough); 1 = run in-process
    pub shards: (u64, u64),
}

fn arg_val(args: &[String], name: &str) -> Option<String> {
    args.iter().position(|a| a == name).and_then(|i| args.get(i + 1).cloned())
}

fn find(id: &str) -> &'static Check {
    let idu = id.to_uppercase();
    match props::registry().iter().find(|c| c.meta.id == idu) {
        Some(c) => c,
        None => {
            eprintln!("unknown property {id}");
            std::process::exit(2);
        }
    }
}

fn main() {
    let args: Vec<String> = std::env::args().collect();
    if args.get(2).map(String::as_str) != Some("mirilane") {
        ctx::install_quiet_panic_hook();
    }
    let cmd = args.get(1).map(String::as_str).unwrap_or("");
    match cmd {
        "run" => {
            let check = find(&args[2]);
            let tier = Tier::parse(&arg_val(&args, "--tier").or_else(|| std::env::var("VERIF_TIER").ok()).unwrap_or_default());
            let seed: u64 = arg_val(&args, "--seed")
                .or_else(|| std::env::var("VERIF_SEED").ok())
                .and_then(|s| s.parse().ok())
                .unwrap_or(1);
            let shards = arg_val(&args, "--shards")
                .and_then(|s| s.parse().ok())
                .unwrap_or(if tier == Tier::Quick { check.shards.0 } else { check.shards.1 });
            let only_case = arg_val(&args, "--case").and_then(|s| s.parse().ok());
            std::process::exit(run_parent(check, tier, seed, shards, only_case));
        }
        "shard" => {
            let check = find(&args[2]);
            let tier = Tier::parse(&arg_val(&args, "--tier").unwrap_or_default());
            let seed: u64 = arg_val(&args, "--seed").and_then(|s| s.parse().ok()).unwrap_or(1);
            let i: u64 = arg_val(&args, "--shard").and_then(|s| s.parse().ok()).unwrap_or(0);
            let n: u64 = arg_val(&args, "--of").and_then(|s| s.parse().ok()).unwrap_or(1);
            let out = arg_val(&args, "--out").expect("--out");
            let only_case = arg_val(&args, "--case").and_then(|s| s.parse().ok());
            let resume_after: Option<u64> = arg_val(&args, "--resume-after").and_then(|s| s.parse().ok());
            limit_memory();
            start_watchdog(check.meta.watchdog_ms(tier));
            let mut c = Ctx::new(check.meta.id, tier, seed, (i, n), only_case);
            c.resume_after = resume_after;
            c.flush_to = Some(std::path::PathBuf::from(&out));
            (check.run)(&mut c);
            c.flush();
            let _ = out;
        }
        "replay" => {
            let path = &args[2];
            let txt = std::fs::read_to_string(path).expect("read replay file");
            let j: serde_json::Value = serde_json::from_str(&txt).expect("parse replay file");
            let id = j["property"].as_str().unwrap_or("").to_string();
            let check = find(&id);
            let tier = Tier::parse(j["tier"].as_str().unwrap_or("quick"));
            let seed = j["seed"].as_u64().unwrap_or(1);
            let case = j["case"].as_u64().unwrap_or(0);
            println!("replaying {id} tier={} seed={seed} case={case}", tier.name());
            std::env::set_var("ILV_NO_EVIDENCE", "1");
            std::process::exit(run_parent(check, tier, seed, 1, Some(case)));
        }
        "sub" => {
            // property-specific helper subcommands (workload / recovery processes)
            std::process::exit(props::sub(&args[2..]));
        }
        "list" => {
            for c in props::registry() {
                println!("{}", c.meta.id);
            }
        }
        _ => {
            eprintln!("usage: ilv run <id> [--tier quick|thorough] [--seed N] [--shards N] | ilv replay <file> | ilv list");
            std::process::exit(2);
        }
    }
}

/// Cap the address space of a shard so that a runaway evaluation cannot exhaust the machine.
fn limit_memory() {
    let gb: u64 = std::env::var("ILV_MEM_GB").ok().and_then(|s| s.parse().ok()).unwrap_or(10);
    let lim = libc::rlimit { rlim_cur: gb << 30, rlim_max: gb << 30 };
    unsafe {
        libc::setrlimit(libc::RLIMIT_AS, &lim);
    }
}

/// Kill the shard when no case makes progress for `ms` milliseconds (a diverging engine call
/// cannot be interrupted in-process). The partial report flushed so far survives; the parent
/// books the rest of the shard as inconclusive.
fn start_watchdog(ms: u64) {
    std::thread::spawn(move || loop {
        std::thread::sleep(std::time::Duration::from_millis(500));
        let last = ctx::LAST_TICK_MS.load(std::sync::atomic::Ordering::Relaxed);
        if ctx::now_ms().saturating_sub(last) > ms {
            eprintln!("WATCHDOG: no progress for {ms} ms at case {}", ctx::CURRENT_CASE.load(std::sync::atomic::Ordering::Relaxed));
            std::process::exit(3);
        }
    });
}

fn run_parent(check: &Check, tier: Tier, seed: u64, shards: u64, only_case: Option<u64>) -> i32 {
    let start = Instant::now();
    let mut report = Report::default();
    if shards <= 1 || only_case.is_some() {
        let mut c = Ctx::new(check.meta.id, tier, seed, (0, 1), only_case);
        (check.run)(&mut c);
        report = c.report;
    } else {
        let exe = std::env::current_exe().expect("current_exe");
        let dir = std::env::temp_dir().join(format!("ilv-{}-{}-{}", check.meta.id, std::process::id(), seed));
        let _ = std::fs::create_dir_all(&dir);
        // every shard is a fresh process; a shard killed by its watchdog (an engine call that
        // does not return cannot be interrupted in-process) is respawned after the hung case
        let spawn = |i: u64, gen: u32, resume: Option<u64>| {
            let out = dir.join(format!("shard{i}.{gen}.json"));
            let logp = dir.join(format!("shard{i}.{gen}.log"));
            let log = std::fs::File::create(&logp).expect("log");
            let mut cmd = Command::new(&exe);
            cmd.args(["shard", check.meta.id, "--tier", tier.name(), "--seed", &seed.to_string(), "--shard", &i.to_string(), "--of", &shards.to_string(), "--out"]).arg(&out);
            if let Some(k) = resume {
                cmd.args(["--resume-after", &k.to_string()]);
            }
            let child = cmd.stdout(Stdio::null()).stderr(Stdio::from(log)).spawn().expect("spawn shard");
            (i, gen, child, out, logp)
        };
        let mut kids: std::collections::VecDeque<_> = (0..shards).map(|i| spawn(i, 0, None)).collect();
        while let Some((i, gen, mut child, out, logp)) = kids.pop_front() {
            let st = child.wait().expect("wait");
            let partial = std::fs::read(&out).ok().and_then(|b| serde_json::from_slice::<Report>(&b).ok());
            if let Some(r) = partial {
                report.merge(r);
            }
            if !st.success() {
                let log = std::fs::read_to_string(&logp).unwrap_or_default();
                let tail: String = log.lines().rev().take(3).collect::<Vec<_>>().join(" | ");
                let hung_case = log.lines().rev().find_map(|l| l.strip_prefix("WATCHDOG: ").and_then(|r| r.rsplit("at case ").next()).and_then(|k| k.trim().parse::<u64>().ok()));
                match hung_case {
                    Some(k) if gen < 40 && k != u64::MAX => {
                        *report.counters.entry("cases_hung_or_crashed".into()).or_insert(0) += 1;
                        if report.inconclusive.len() < 50 {
                            report.inconclusive.push(format!("case {k}: no progress within the watchdog limit (inconclusive, skipped)"));
                        }
                        kids.push_back(spawn(i, gen + 1, Some(k)));
                    }
                    _ => {
                        report.inconclusive.push(format!("shard {i} aborted ({st}); its remaining cases are inconclusive: {tail}"));
                        *report.counters.entry("shards_aborted".into()).or_insert(0) += 1;
                    }
                }
            }
        }
        let _ = std::fs::remove_dir_all(&dir);
    }
    if tier == Tier::Thorough && only_case.is_none() && std::env::var("ILV_NO_SANITIZER_LANES").is_err() {
        mirilane::sanitizer_lanes(check.meta.id, seed, &mut report);
    }
    let wall = start.elapsed().as_secs_f64();
    ctx::finalize(check.meta, tier, seed, &report, wall)
}
