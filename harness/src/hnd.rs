//! Helpers driving `protocol::Handler` (the unified program entry point) on a scratch store.

use crate::ctx::guarded;
use crate::store::{config, StoreOpts};
use inputlayer::auth::AuthIdentity;
use inputlayer::protocol::wire::{QueryResult, WireValue};
use inputlayer::protocol::Handler;
use inputlayer::session::SessionId;
use std::path::Path;
use std::sync::Arc;

pub struct H {
    pub h: Arc<Handler>,
    pub rt: tokio::runtime::Runtime,
}

impl H {
    pub fn open(dir: &Path, o: &StoreOpts) -> Result<H, String> {
        let c = config(dir, o);
        let rt = tokio::runtime::Builder::new_multi_thread().worker_threads(2).enable_all().build().map_err(|e| format!("{e}"))?;
        let h = guarded(|| {
            let _g = rt.enter();
            Handler::from_config(c)
        })
        .and_then(|r| r)?;
        Ok(H { h: Arc::new(h), rt })
    }
    /// run one program; panics inside the handler become Err("panic: ..")
    pub fn exec_as(&self, session: Option<&SessionId>, kg: Option<&str>, program: &str, auth: Option<&AuthIdentity>) -> Result<QueryResult, String> {
        let h = Arc::clone(&self.h);
        guarded(|| self.rt.block_on(h.execute_program(session, kg.map(str::to_string), program.to_string(), auth))).and_then(|r| r)
    }
    pub fn exec(&self, kg: &str, program: &str) -> Result<QueryResult, String> {
        self.exec_as(None, Some(kg), program, None)
    }
}

pub fn wire_str(v: &WireValue) -> String {
    match v {
        WireValue::Null => "null".into(),
        WireValue::Int32(i) => format!("{i}i32"),
        WireValue::Int64(i) => format!("{i}"),
        WireValue::Float64(f) => format!("{f:?}f"),
        WireValue::String(s) => format!("{s:?}"),
        WireValue::Bool(b) => format!("{b}"),
        WireValue::Timestamp(t) => format!("ts{t}"),
        WireValue::Vector(v) => format!("{v:?}"),
        WireValue::VectorInt8(v) => format!("i8{v:?}"),
        WireValue::Bytes(b) => format!("bytes{b:?}"),
    }
}
pub fn rows_str(r: &QueryResult) -> Vec<String> {
    r.rows.iter().map(|t| format!("({})", t.values.iter().map(wire_str).collect::<Vec<_>>().join(", "))).collect()
}
/// all string cells of a result (status / message rows)
pub fn messages(r: &QueryResult) -> Vec<String> {
    r.rows.iter().flat_map(|t| t.values.iter()).filter_map(|v| if let WireValue::String(s) = v { Some(s.clone()) } else { None }).collect()
}
