//! Seeded generator of stratified programs + EDBs (shared by C01..C08, C18, C21..C23).

use crate::refdl::*;
use crate::rng::Rng;
use std::collections::{BTreeMap, BTreeSet};

#[derive(Clone, Debug)]
pub struct GenOpts {
    pub neg: u32,      // percent chance per clause of a negated literal
    pub rec: u32,      // percent chance per IDB of being self-recursive
    pub mutual: u32,   // percent chance per program of a mutually recursive group
    pub agg: u32,      // percent chance the query is an aggregate
    pub arith: u32,    // percent chance per clause of an arithmetic-defined variable
    pub union: u32,    // percent chance per IDB of a second clause
    pub cmp: u32,      // percent chance per clause of a comparison
    pub strings: bool, // include a string-typed column relation
    pub max_idb: usize,
    pub max_body: usize,
    pub bound_query: u32, // percent chance the query binds an argument to a constant
    pub domain: i64,
    pub max_edb: usize,
    pub rec_arith: u32, // percent chance a recursive IDB gets a bounded counter column
    pub near_tc: u32,   // percent chance a self-recursive IDB is a transitive-closure look-alike
    pub exact_tc: u32,  // percent chance such a look-alike is the exact left- or right-recursive closure
}
impl Default for GenOpts {
    fn default() -> Self {
        GenOpts {
            neg: 20,
            rec: 30,
            mutual: 12,
            agg: 15,
            arith: 15,
            union: 30,
            cmp: 30,
            strings: false,
            max_idb: 3,
            max_body: 3,
            bound_query: 25,
            domain: 5,
            max_edb: 10,
            rec_arith: 5,
            near_tc: 25,
            exact_tc: 20,
        }
    }
}

#[derive(Clone, Debug)]
pub struct GenProgram {
    pub clauses: Vec<Clause>,
    pub edb: Db,
    pub arity: BTreeMap<String, usize>,
    pub query: String,
    pub tags: BTreeSet<&'static str>,
}
impl GenProgram {
    pub fn text(&self) -> String {
        program_text(&self.clauses)
    }
    pub fn tag_string(&self) -> String {
        self.tags.iter().copied().collect::<Vec<_>>().join("+")
    }
    pub fn to_json(&self) -> serde_json::Value {
        let edb: BTreeMap<String, Vec<String>> = self
            .edb
            .iter()
            .map(|(k, v)| (k.clone(), v.iter().map(|t| format!("({})", t.iter().map(|x| x.to_string()).collect::<Vec<_>>().join(","))).collect()))
            .collect();
        serde_json::json!({"program": self.text().lines().collect::<Vec<_>>(), "edb": edb, "tags": self.tag_string()})
    }
}

const VARS: [&str; 6] = ["X", "Y", "Z", "W", "U", "T"];
pub const EDB_RELS: [(&str, usize); 4] = [("a", 2), ("b", 2), ("c", 1), ("d", 3)];

struct G<'a> {
    r: &'a mut Rng,
    o: &'a GenOpts,
    tags: BTreeSet<&'static str>,
}

impl G<'_> {
    fn pct(&mut self, p: u32) -> bool {
        p > 0 && self.r.chance(p, 100)
    }
    fn konst(&mut self) -> Term {
        Term::C(V::I(self.r.range(0, self.o.domain - 1)))
    }

    /// body atoms over `avail` relations with a small variable pool so that joins happen
    fn atom(&mut self, rel: &str, arity: usize, pool: &[&str]) -> Atom {
        let args = (0..arity)
            .map(|_| {
                let x = self.r.below(100);
                if x < 82 {
                    Term::Var((*self.r.pick(pool)).to_string())
                } else if x < 92 {
                    self.tags.insert("const");
                    self.konst()
                } else {
                    self.tags.insert("wildcard");
                    Term::Wild
                }
            })
            .collect();
        Atom { rel: rel.to_string(), args }
    }

    /// a clause for `head/arity` whose positive atoms come from `avail`; `must` (if any) is
    /// forced into the body (recursion); negation targets come from `negs`.
    #[allow(clippy::too_many_arguments)]
    fn clause(
        &mut self,
        head: &str,
        arity: usize,
        avail: &[(String, usize)],
        must: Option<(String, usize)>,
        negs: &[(String, usize)],
        allow_arith: bool,
        agg: Option<AggFn>,
    ) -> Clause {
        let nb = 1 + self.r.below(self.o.max_body);
        let npool = (2 + self.r.below(3)).min(VARS.len());
        let pool: Vec<&str> = VARS[..npool].to_vec();
        let mut body: Vec<Lit> = Vec::new();
        let mut atoms: Vec<Atom> = Vec::new();
        if let Some((m, ar)) = &must {
            atoms.push(self.atom(m, *ar, &pool));
        }
        while atoms.len() < nb {
            let (rel, ar) = self.r.pick(avail).clone();
            atoms.push(self.atom(&rel, ar, &pool));
        }
        self.r.shuffle(&mut atoms);
        let mut multikey_here = false;
        if atoms.len() >= 2 && self.pct(35) {
            // multi-column join: atom j re-uses two variables of atom i, in any positions/order
            let i = self.r.below(atoms.len());
            let mut j = self.r.below(atoms.len());
            if j == i {
                j = (i + 1) % atoms.len();
            }
            let vars: Vec<String> = atoms[i].args.iter().filter_map(|t| if let Term::Var(v) = t { Some(v.clone()) } else { None }).collect::<BTreeSet<_>>().into_iter().collect();
            if vars.len() >= 2 && atoms[j].args.len() >= 2 {
                let mut pos: Vec<usize> = (0..atoms[j].args.len()).collect();
                self.r.shuffle(&mut pos);
                let mut vs = vars.clone();
                self.r.shuffle(&mut vs);
                atoms[j].args[pos[0]] = Term::Var(vs[0].clone());
                atoms[j].args[pos[1]] = Term::Var(vs[1].clone());
                if atoms[j].args.len() == 3 && self.pct(70) {
                    // a column that only this atom provides
                    atoms[j].args[pos[2]] = Term::Var("T".into());
                }
                self.tags.insert("multikey_join");
                multikey_here = true;
            }
        }
        // make sure at least one variable exists
        if atoms.iter().all(|a| a.args.iter().all(|t| !matches!(t, Term::Var(_)))) {
            atoms[0].args[0] = Term::Var("X".into());
        }
        let mut bound: Vec<String> = Vec::new();
        for a in &atoms {
            let mut seen_here = BTreeSet::new();
            for t in &a.args {
                if let Term::Var(v) = t {
                    if !seen_here.insert(v.clone()) {
                        self.tags.insert("repeated_var");
                    }
                    if !bound.contains(v) {
                        bound.push(v.clone());
                    }
                }
            }
        }
        match atoms.len() {
            1 => {}
            2 => {
                self.tags.insert("join2");
            }
            _ => {
                self.tags.insert("join3plus");
            }
        }
        for a in atoms {
            body.push(Lit::Pos(a));
        }
        let mut head_pool = bound.clone();
        if allow_arith && self.pct(self.o.arith) && !bound.is_empty() {
            self.tags.insert("arith");
            let x = Term::Var(self.r.pick(&bound).clone());
            let y = if self.pct(50) { Term::Var(self.r.pick(&bound).clone()) } else { self.konst() };
            let op = *self.r.pick(&[Op::Add, Op::Sub, Op::Mul]);
            let mut e = Arith::Bin(Box::new(Arith::T(x)), op, Box::new(Arith::T(y)));
            if self.pct(30) {
                let z = Term::Var(self.r.pick(&bound).clone());
                let op2 = *self.r.pick(&[Op::Add, Op::Sub, Op::Mul]);
                e = if self.pct(50) {
                    Arith::Bin(Box::new(e), op2, Box::new(Arith::T(z)))
                } else {
                    Arith::Bin(Box::new(Arith::T(z)), op2, Box::new(e))
                };
            }
            body.push(Lit::Assign("V".into(), e));
            head_pool.push("V".into());
            // make it likely to appear in the head
            head_pool.push("V".into());
        }
        if self.pct(self.o.cmp) {
            self.tags.insert("cmp");
            let x = Term::Var(self.r.pick(&head_pool).clone());
            let y = if self.pct(50) { Term::Var(self.r.pick(&head_pool).clone()) } else { self.konst() };
            let op = *self.r.pick(&[Cmp::Eq, Cmp::Ne, Cmp::Lt, Cmp::Le, Cmp::Gt, Cmp::Ge]);
            body.push(Lit::Cmp(x, op, y));
        }
        if !negs.is_empty() && self.pct(self.o.neg) {
            self.tags.insert("neg");
            let (rel, ar) = self.r.pick(negs).clone();
            let mut args: Vec<Term> = (0..ar)
                .map(|_| {
                    let x = self.r.below(100);
                    if x < 75 {
                        Term::Var(self.r.pick(&bound).clone())
                    } else if x < 88 {
                        self.konst()
                    } else {
                        Term::Wild
                    }
                })
                .collect();
            // the engine only accepts negated atoms that share a variable with the positive body
            if !args.iter().any(|t| matches!(t, Term::Var(_))) {
                let pos = self.r.below(ar);
                args[pos] = Term::Var(self.r.pick(&bound).clone());
            }
            body.push(Lit::Neg(Atom { rel, args }));
        }
        let mut hargs: Vec<HeadArg> = (0..arity)
            .map(|_| {
                // (the engine rejects constants in aggregate heads)
                if agg.is_none() && self.r.chance(7, 100) {
                    self.tags.insert("head_const");
                    HeadArg::T(self.konst())
                } else {
                    HeadArg::T(Term::Var(self.r.pick(&head_pool).clone()))
                }
            })
            .collect();
        if multikey_here && agg.is_none() && bound.iter().any(|v| v == "T") && self.pct(50) {
            // project the column that only the multi-key atom provides
            let pos = self.r.below(arity);
            hargs[pos] = HeadArg::T(Term::Var("T".into()));
        }
        if let Some(f) = agg {
            self.tags.insert("agg");
            let pos = self.r.below(arity);
            hargs[pos] = HeadArg::Agg(f, self.r.pick(&bound).clone());
        }
        Clause { head: head.to_string(), hargs, body }
    }
}

pub fn gen_edb(r: &mut Rng, o: &GenOpts) -> Db {
    let mut db = Db::new();
    // three EDB styles: independent random tuples; correlated relations (tuples of b and d are built
    // from tuples of a, so that joins on two columns are non-empty); chain/cycle-like graphs over a
    // larger domain (so that recursion needs many rounds)
    let style = r.below(10);
    let dom = if style >= 7 { o.domain + 1 + r.below(5) as i64 } else { o.domain };
    for (name, ar) in EDB_RELS {
        let n = if r.chance(8, 100) { 0 } else { 1 + r.below(o.max_edb) };
        let mut rel = Rel::new();
        for _ in 0..n {
            rel.insert((0..ar).map(|_| V::I(r.range(0, dom - 1))).collect());
        }
        db.insert(name.to_string(), rel);
    }
    if style >= 7 {
        // a: a path 0->1->..->k (plus a few random edges), b: the reverse path or a shifted one
        let k = 3 + r.below(dom as usize - 2) as i64;
        let a = db.get_mut("a").unwrap();
        for i in 0..k {
            if r.chance(9, 10) {
                a.insert(vec![V::I(i), V::I(i + 1)]);
            }
        }
        if r.chance(1, 3) {
            a.insert(vec![V::I(k), V::I(0)]);
        }
        let b = db.get_mut("b").unwrap();
        for i in 0..k {
            if r.chance(1, 2) {
                b.insert(vec![V::I(i + 1), V::I(i)]);
            } else if r.chance(1, 2) {
                b.insert(vec![V::I(i), V::I((i + 2) % (k + 1))]);
            }
        }
    } else if style >= 3 {
        let a: Vec<Tup> = db["a"].iter().cloned().collect();
        if !a.is_empty() {
            let b = db.get_mut("b").unwrap();
            for _ in 0..(1 + r.below(4)) {
                let t = r.pick(&a).clone();
                b.insert(if r.chance(1, 2) { vec![t[1].clone(), t[0].clone()] } else { t });
            }
            let d = db.get_mut("d").unwrap();
            for _ in 0..(1 + r.below(5)) {
                let t = r.pick(&a).clone();
                let z = V::I(r.range(0, dom - 1));
                let row = match r.below(4) {
                    0 => vec![t[0].clone(), t[1].clone(), z],
                    1 => vec![t[1].clone(), t[0].clone(), z],
                    2 => vec![z, t[0].clone(), t[1].clone()],
                    _ => vec![t[1].clone(), z, t[0].clone()],
                };
                d.insert(row);
            }
        }
    }
    db
}

/// Generate one program. Always stratified and safe by construction (and re-validated by RefDL).
pub fn gen_program(r: &mut Rng, o: &GenOpts) -> GenProgram {
    loop {
        let p = gen_program_once(r, o);
        if check_stratified(&p.clauses).is_ok() && p.clauses.iter().all(|c| check_safe(c).is_ok()) {
            return p;
        }
    }
}

fn gen_program_once(r: &mut Rng, o: &GenOpts) -> GenProgram {
    let edb = gen_edb(r, o);
    let mut arity: BTreeMap<String, usize> = EDB_RELS.iter().map(|(n, a)| (n.to_string(), *a)).collect();
    let mut g = G { r, o, tags: BTreeSet::new() };
    let n_idb = if o.max_idb == 0 { 0 } else { g.r.below(o.max_idb + 1) };
    let mut clauses: Vec<Clause> = Vec::new();
    let mut avail: Vec<(String, usize)> = EDB_RELS.iter().map(|(n, a)| (n.to_string(), *a)).collect();
    let mut i = 0;
    while i < n_idb {
        let name = format!("p{}", i + 1);
        let ar = 1 + g.r.below(3);
        arity.insert(name.clone(), ar);
        let negs = avail.clone();
        if i + 1 < n_idb && g.pct(o.mutual) {
            // mutually recursive group p_i .. p_{i+k-1}, k in {2,3}: a ring guarantees the SCC, extra
            // clauses add cross references in any direction; clause order is shuffled
            g.tags.insert("rec_mutual");
            let ksz = if i + 2 < n_idb && g.pct(50) { 3 } else { 2 };
            if ksz == 3 {
                g.tags.insert("rec_mutual3");
            }
            let members: Vec<(String, usize)> = (0..ksz).map(|m| (format!("p{}", i + 1 + m), if g.pct(60) { 1 + g.r.below(2) } else { 1 + g.r.below(3) })).collect();
            for (n, a) in &members {
                arity.insert(n.clone(), *a);
            }
            let mut all = avail.clone();
            all.extend(members.iter().cloned());
            let mut group = vec![g.clause(&members[0].0, members[0].1, &avail, None, &negs, true, None)]; // base
            for m in 0..ksz {
                let (hn, ha) = members[(m + 1) % ksz].clone();
                // bodies over EDB + group members, forced to contain the ring predecessor
                group.push(g.clause(&hn, ha, &all, Some(members[m].clone()), &negs, false, None));
            }
            for _ in 0..g.r.below(3) {
                let (hn, ha) = members[g.r.below(ksz)].clone();
                let must = members[g.r.below(ksz)].clone();
                group.push(g.clause(&hn, ha, &all, Some(must), &negs, false, None));
            }
            if g.pct(40) {
                let (hn, ha) = members[1 + g.r.below(ksz - 1)].clone();
                group.push(g.clause(&hn, ha, &avail, None, &negs, true, None));
            }
            g.r.shuffle(&mut group);
            clauses.extend(group);
            avail.extend(members);
            i += ksz;
            continue;
        }
        if g.pct(o.rec) {
            g.tags.insert("rec_self");
            if g.pct(o.near_tc) {
                // transitive-closure look-alikes: one binary base clause over an edge relation and one
                // recursive clause joining an edge atom with the recursive atom, with every choice of join
                // columns, atom order and head projection (the exact TC is one of them). Engines special-case
                // the exact shape; its neighbours must not be mistaken for it.
                g.tags.insert("near_tc");
                arity.insert(name.clone(), 2);
                let v = |s: &str| Term::Var(s.to_string());
                let idb2: Vec<String> = avail.iter().filter(|(n, a)| *a == 2 && n.starts_with('p')).map(|(n, _)| n.clone()).collect();
                let edge = |g: &mut G, x: &str, y: &str| -> Atom {
                    // sometimes the edge relation is itself derived (an earlier binary IDB)
                    if !idb2.is_empty() && g.pct(25) {
                        g.tags.insert("tc_over_idb");
                        return Atom { rel: idb2[g.r.below(idb2.len())].clone(), args: vec![v(x), v(y)] };
                    }
                    match g.r.below(10) {
                        0..=5 => Atom { rel: "a".into(), args: vec![v(x), v(y)] },
                        6..=8 => Atom { rel: "b".into(), args: vec![v(x), v(y)] },
                        _ => match g.r.below(3) {
                            0 => Atom { rel: "d".into(), args: vec![v(x), v(y), Term::Wild] },
                            1 => Atom { rel: "d".into(), args: vec![Term::Wild, v(x), v(y)] },
                            _ => Atom { rel: "d".into(), args: vec![v(x), Term::Wild, v(y)] },
                        },
                    }
                };
                let e1 = edge(&mut g, "X", "Y");
                if g.pct(o.exact_tc) {
                    g.tags.insert("exact_tc");
                    let base = Clause { head: name.clone(), hargs: vec![HeadArg::T(v("X")), HeadArg::T(v("Y"))], body: vec![Lit::Pos(e1.clone())] };
                    let mut e2 = e1.clone();
                    let left = g.pct(50);
                    for t in e2.args.iter_mut() {
                        if let Term::Var(n) = t {
                            *n = match (left, n.as_str()) {
                                (true, "X") => "Y".to_string(),
                                (true, _) => "Z".to_string(),
                                (false, other) => other.to_string(),
                            };
                        }
                    }
                    let ratom = if left { Atom { rel: name.clone(), args: vec![v("X"), v("Y")] } } else { Atom { rel: name.clone(), args: vec![v("Y"), v("Z")] } };
                    let body = if left == g.pct(80) { vec![Lit::Pos(ratom), Lit::Pos(e2)] } else { vec![Lit::Pos(e2), Lit::Pos(ratom)] };
                    let rec = Clause { head: name.clone(), hargs: vec![HeadArg::T(v("X")), HeadArg::T(v("Z"))], body };
                    if g.pct(70) {
                        clauses.push(base);
                        clauses.push(rec);
                    } else {
                        clauses.push(rec);
                        clauses.push(base);
                    }
                    avail.push((name, 2));
                    i += 1;
                    continue;
                }
                let (h1, h2) = if g.pct(55) { ("X", "Y") } else { *g.r.pick(&[("Y", "X"), ("X", "X"), ("Y", "Y"), ("X", "Y")]) };
                let mut bbody = vec![Lit::Pos(e1.clone())];
                if g.pct(12) {
                    bbody.push(Lit::Cmp(v("X"), *g.r.pick(&[Cmp::Lt, Cmp::Le, Cmp::Ne]), v("Y")));
                }
                let base = Clause { head: name.clone(), hargs: vec![HeadArg::T(v(h1)), HeadArg::T(v(h2))], body: bbody };
                let mut recs = Vec::new();
                for _ in 0..(if g.pct(15) { 2 } else { 1 }) {
                    // edge atom: same relation and orientation as the base in most cases
                    let mut e2 = if g.pct(75) { e1.clone() } else { edge(&mut g, "X", "Y") };
                    let (ea, eb, ra, rb) = *g.r.pick(&[("X", "Y", "Y", "Z"), ("X", "Y", "Y", "Z"), ("Y", "Z", "X", "Y"), ("Y", "Z", "X", "Y"), ("X", "Y", "Z", "Y"), ("Y", "X", "Y", "Z"), ("X", "Y", "X", "Z")]);
                    // rename the edge atom's variables (its first variable slot is X, the second Y)
                    for t in e2.args.iter_mut() {
                        if let Term::Var(n) = t {
                            *n = if n == "X" { ea.to_string() } else { eb.to_string() };
                        }
                    }
                    let ratom = Atom { rel: name.clone(), args: vec![v(ra), v(rb)] };
                    let (g1, g2) = if g.pct(55) { ("X", "Z") } else { *g.r.pick(&[("X", "Y"), ("Z", "X"), ("Y", "Z"), ("X", "X"), ("Z", "Y"), ("X", "Z")]) };
                    let mut body = if g.pct(50) { vec![Lit::Pos(e2), Lit::Pos(ratom)] } else { vec![Lit::Pos(ratom), Lit::Pos(e2)] };
                    if g.pct(10) {
                        body.push(Lit::Cmp(v("X"), *g.r.pick(&[Cmp::Lt, Cmp::Ne, Cmp::Ge]), v("Z")));
                    }
                    recs.push(Clause { head: name.clone(), hargs: vec![HeadArg::T(v(g1)), HeadArg::T(v(g2))], body });
                }
                if g.pct(50) {
                    clauses.push(base);
                    clauses.extend(recs);
                } else {
                    clauses.extend(recs);
                    clauses.push(base);
                }
                avail.push((name, 2));
                i += 1;
                continue;
            }
            if ar >= 2 && g.pct(o.rec_arith) {
                // bounded counter: p(.., D) <- p(.., D1), e(..), D = D1 + 1, D < k
                g.tags.insert("rec_arith");
                let (er, ea) = g.r.pick(&[("a", 2usize), ("b", 2usize)]).to_owned();
                let mut hb: Vec<HeadArg> = (0..ar - 1).map(|_| HeadArg::T(Term::Var("X".into()))).collect();
                hb.push(HeadArg::T(Term::C(V::I(0))));
                let base = Clause {
                    head: name.clone(),
                    hargs: hb,
                    body: vec![Lit::Pos(Atom { rel: er.to_string(), args: vec![Term::Var("X".into()), Term::Wild][..ea].to_vec() })],
                };
                let mut rargs: Vec<Term> = (0..ar - 1).map(|_| Term::Var("Y".into())).collect();
                rargs.push(Term::Var("D1".into()));
                let mut hr: Vec<HeadArg> = (0..ar - 1).map(|_| HeadArg::T(Term::Var("X".into()))).collect();
                hr.push(HeadArg::T(Term::Var("D".into())));
                let bound = g.r.range(2, 5);
                let rec = Clause {
                    head: name.clone(),
                    hargs: hr,
                    body: vec![
                        Lit::Pos(Atom { rel: name.clone(), args: rargs }),
                        Lit::Pos(Atom { rel: er.to_string(), args: vec![Term::Var("Y".into()), Term::Var("X".into())] }),
                        Lit::Assign("D".into(), Arith::Bin(Box::new(Arith::T(Term::Var("D1".into()))), Op::Add, Box::new(Arith::T(Term::C(V::I(1)))))),
                        Lit::Cmp(Term::Var("D".into()), Cmp::Lt, Term::C(V::I(bound))),
                    ],
                };
                clauses.push(base);
                clauses.push(rec);
            } else {
                let base = g.clause(&name, ar, &avail, None, &negs, true, None);
                let mut with_self = avail.clone();
                with_self.push((name.clone(), ar));
                let rec = g.clause(&name, ar, &with_self, Some((name.clone(), ar)), &negs, false, None);
                if g.pct(50) {
                    clauses.push(base);
                    clauses.push(rec);
                } else {
                    clauses.push(rec);
                    clauses.push(base);
                }
                if g.pct(20) {
                    let rec2 = g.clause(&name, ar, &with_self, Some((name.clone(), ar)), &negs, false, None);
                    clauses.push(rec2);
                }
            }
        } else {
            clauses.push(g.clause(&name, ar, &avail, None, &negs, true, None));
            if g.pct(o.union) {
                g.tags.insert("union");
                clauses.push(g.clause(&name, ar, &avail, None, &negs, true, None));
                if g.pct(25) {
                    clauses.push(g.clause(&name, ar, &avail, None, &negs, true, None));
                }
            }
        }
        avail.push((name, ar));
        i += 1;
    }
    // query: prefer bodies over the IDB relations when present
    let qar = 1 + g.r.below(3);
    arity.insert("q".into(), qar);
    let mut qavail = avail.clone();
    for (n, a) in avail.iter().filter(|(n, _)| n.starts_with('p')) {
        qavail.push((n.clone(), *a));
        qavail.push((n.clone(), *a));
    }
    let agg = if g.pct(o.agg) {
        Some(*g.r.pick(&[AggFn::Count, AggFn::Sum, AggFn::Min, AggFn::Max, AggFn::Count, AggFn::CountDistinct, AggFn::Avg]))
    } else {
        None
    };
    let negs = avail.clone();
    let mut qc = g.clause("q", qar, &qavail, None, &negs, true, agg);
    if g.pct(o.bound_query) {
        // bind one argument of an IDB atom in the query to a constant (magic-set trigger)
        let k = g.konst();
        for l in qc.body.iter_mut() {
            if let Lit::Pos(a) = l {
                if a.rel.starts_with('p') {
                    let pos = g.r.below(a.args.len());
                    a.args[pos] = k.clone();
                    g.tags.insert("bound_query");
                    break;
                }
            }
        }
    }
    clauses.push(qc);
    if agg.is_none() && g.pct(o.union / 2) {
        g.tags.insert("union");
        g.tags.insert("query_union");
        clauses.push(g.clause("q", qar, &qavail, None, &negs, true, None));
    }
    let tags = g.tags;
    GenProgram { clauses, edb, arity, query: "q".into(), tags }
}
