//! Seeded generator of stratified programs + EDBs (shared by C01..C08, C18, C21..C23).

use crate::refdl::*;
use crate::rng::Rng;
use std::collections::{BTreeMap, BTreeSet};

#[derive(Clone, Debug)]
pub struct GenOpts {
    pub neg: u32,      // percent chance per clause of a negated literal
    pub rec: u32,      // percent chance per IDB of being self-recursive
    pub mutual: u32,   // percent chance per program of a mutually recursive group
    pub agg: u32,      // percent chance the query is an aggregate
    pub arith: u32,    // percent chance per clause of an arithmetic-defined variable
    pub union: u32,    // percent chance per IDB of a second clause
    pub cmp: u32,      // percent chance per clause of a comparison
    pub strings: bool, // include a string-typed column relation
    pub max_idb: usize,
    pub max_body: usize,
    pub bound_query: u32, // percent chance the query binds an argument to a constant
    pub domain: i64,
    pub max_edb: usize,
    pub rec_arith: u32, // percent chance a recursive IDB gets a bounded counter column
}
impl Default for GenOpts {
    fn default() -> Self {
        GenOpts {
            neg: 20,
            rec: 30,
            mutual: 12,
            agg: 15,
            arith: 15,
            union: 30,
            cmp: 30,
            strings: false,
            max_idb: 3,
            max_body: 3,
            bound_query: 25,
            domain: 5,
            max_edb: 10,
            rec_arith: 5,
        }
    }
}

#[derive(Clone, Debug)]
pub struct GenProgram {
    pub clauses: Vec<Clause>,
    pub edb: Db,
    pub arity: BTreeMap<String, usize>,
    pub query: String,
    pub tags: BTreeSet<&'static str>,
}
impl GenProgram {
    pub fn text(&self) -> String {
        program_text(&self.clauses)
    }
    pub fn tag_string(&self) -> String {
        self.tags.iter().copied().collect::<Vec<_>>().join("+")
    }
    pub fn to_json(&self) -> serde_json::Value {
        let edb: BTreeMap<String, Vec<String>> = self
            .edb
            .iter()
            .map(|(k, v)| (k.clone(), v.iter().map(|t| format!("({})", t.iter().map(|x| x.to_string()).collect::<Vec<_>>().join(","))).collect()))
            .collect();
        serde_json::json!({"program": self.text().lines().collect::<Vec<_>>(), "edb": edb, "tags": self.tag_string()})
    }
}

const VARS: [&str; 6] = ["X", "Y", "Z", "W", "U", "T"];
pub const EDB_RELS: [(&str, usize); 4] = [("a", 2), ("b", 2), ("c", 1), ("d", 3)];

struct G<'a> {
    r: &'a mut Rng,
    o: &'a GenOpts,
    tags: BTreeSet<&'static str>,
}

impl G<'_> {
    fn pct(&mut self, p: u32) -> bool {
        p > 0 && self.r.chance(p, 100)
    }
    fn konst(&mut self) -> Term {
        Term::C(V::I(self.r.range(0, self.o.domain - 1)))
    }

    /// body atoms over `avail` relations with a small variable pool so that joins happen
    fn atom(&mut self, rel: &str, arity: usize, pool: &[&str]) -> Atom {
        let args = (0..arity)
            .map(|_| {
                let x = self.r.below(100);
                if x < 82 {
                    Term::Var((*self.r.pick(pool)).to_string())
                } else if x < 92 {
                    self.tags.insert("const");
                    self.konst()
                } else {
                    self.tags.insert("wildcard");
                    Term::Wild
                }
            })
            .collect();
        Atom { rel: rel.to_string(), args }
    }

    /// a clause for `head/arity` whose positive atoms come from `avail`; `must` (if any) is
    /// forced into the body (recursion); negation targets come from `negs`.
    #[allow(clippy::too_many_arguments)]
    fn clause(
        &mut self,
        head: &str,
        arity: usize,
        avail: &[(String, usize)],
        must: Option<(String, usize)>,
        negs: &[(String, usize)],
        allow_arith: bool,
        agg: Option<AggFn>,
    ) -> Clause {
        let nb = 1 + self.r.below(self.o.max_body);
        let npool = (2 + self.r.below(3)).min(VARS.len());
        let pool: Vec<&str> = VARS[..npool].to_vec();
        let mut body: Vec<Lit> = Vec::new();
        let mut atoms: Vec<Atom> = Vec::new();
        if let Some((m, ar)) = &must {
            atoms.push(self.atom(m, *ar, &pool));
        }
        while atoms.len() < nb {
            let (rel, ar) = self.r.pick(avail).clone();
            atoms.push(self.atom(&rel, ar, &pool));
        }
        self.r.shuffle(&mut atoms);
        // make sure at least one variable exists
        if atoms.iter().all(|a| a.args.iter().all(|t| !matches!(t, Term::Var(_)))) {
            atoms[0].args[0] = Term::Var("X".into());
        }
        let mut bound: Vec<String> = Vec::new();
        for a in &atoms {
            let mut seen_here = BTreeSet::new();
            for t in &a.args {
                if let Term::Var(v) = t {
                    if !seen_here.insert(v.clone()) {
                        self.tags.insert("repeated_var");
                    }
                    if !bound.contains(v) {
                        bound.push(v.clone());
                    }
                }
            }
        }
        match atoms.len() {
            1 => {}
            2 => {
                self.tags.insert("join2");
            }
            _ => {
                self.tags.insert("join3plus");
            }
        }
        for a in atoms {
            body.push(Lit::Pos(a));
        }
        let mut head_pool = bound.clone();
        if allow_arith && self.pct(self.o.arith) && !bound.is_empty() {
            self.tags.insert("arith");
            let x = Term::Var(self.r.pick(&bound).clone());
            let y = if self.pct(50) { Term::Var(self.r.pick(&bound).clone()) } else { self.konst() };
            let op = *self.r.pick(&[Op::Add, Op::Sub, Op::Mul]);
            let mut e = Arith::Bin(Box::new(Arith::T(x)), op, Box::new(Arith::T(y)));
            if self.pct(30) {
                let z = Term::Var(self.r.pick(&bound).clone());
                let op2 = *self.r.pick(&[Op::Add, Op::Sub, Op::Mul]);
                e = if self.pct(50) {
                    Arith::Bin(Box::new(e), op2, Box::new(Arith::T(z)))
                } else {
                    Arith::Bin(Box::new(Arith::T(z)), op2, Box::new(e))
                };
            }
            body.push(Lit::Assign("V".into(), e));
            head_pool.push("V".into());
            // make it likely to appear in the head
            head_pool.push("V".into());
        }
        if self.pct(self.o.cmp) {
            self.tags.insert("cmp");
            let x = Term::Var(self.r.pick(&head_pool).clone());
            let y = if self.pct(50) { Term::Var(self.r.pick(&head_pool).clone()) } else { self.konst() };
            let op = *self.r.pick(&[Cmp::Eq, Cmp::Ne, Cmp::Lt, Cmp::Le, Cmp::Gt, Cmp::Ge]);
            body.push(Lit::Cmp(x, op, y));
        }
        if !negs.is_empty() && self.pct(self.o.neg) {
            self.tags.insert("neg");
            let (rel, ar) = self.r.pick(negs).clone();
            let mut args: Vec<Term> = (0..ar)
                .map(|_| {
                    let x = self.r.below(100);
                    if x < 75 {
                        Term::Var(self.r.pick(&bound).clone())
                    } else if x < 88 {
                        self.konst()
                    } else {
                        Term::Wild
                    }
                })
                .collect();
            // the engine only accepts negated atoms that share a variable with the positive body
            if !args.iter().any(|t| matches!(t, Term::Var(_))) {
                let pos = self.r.below(ar);
                args[pos] = Term::Var(self.r.pick(&bound).clone());
            }
            body.push(Lit::Neg(Atom { rel, args }));
        }
        let mut hargs: Vec<HeadArg> = (0..arity)
            .map(|_| {
                // (the engine rejects constants in aggregate heads)
                if agg.is_none() && self.r.chance(7, 100) {
                    self.tags.insert("head_const");
                    HeadArg::T(self.konst())
                } else {
                    HeadArg::T(Term::Var(self.r.pick(&head_pool).clone()))
                }
            })
            .collect();
        if let Some(f) = agg {
            self.tags.insert("agg");
            let pos = self.r.below(arity);
            hargs[pos] = HeadArg::Agg(f, self.r.pick(&bound).clone());
        }
        Clause { head: head.to_string(), hargs, body }
    }
}

pub fn gen_edb(r: &mut Rng, o: &GenOpts) -> Db {
    let mut db = Db::new();
    for (name, ar) in EDB_RELS {
        let n = if r.chance(8, 100) { 0 } else { 1 + r.below(o.max_edb) };
        let mut rel = Rel::new();
        for _ in 0..n {
            rel.insert((0..ar).map(|_| V::I(r.range(0, o.domain - 1))).collect());
        }
        db.insert(name.to_string(), rel);
    }
    db
}

/// Generate one program. Always stratified and safe by construction (and re-validated by RefDL).
pub fn gen_program(r: &mut Rng, o: &GenOpts) -> GenProgram {
    loop {
        let p = gen_program_once(r, o);
        if check_stratified(&p.clauses).is_ok() && p.clauses.iter().all(|c| check_safe(c).is_ok()) {
            return p;
        }
    }
}

fn gen_program_once(r: &mut Rng, o: &GenOpts) -> GenProgram {
    let edb = gen_edb(r, o);
    let mut arity: BTreeMap<String, usize> = EDB_RELS.iter().map(|(n, a)| (n.to_string(), *a)).collect();
    let mut g = G { r, o, tags: BTreeSet::new() };
    let n_idb = if o.max_idb == 0 { 0 } else { g.r.below(o.max_idb + 1) };
    let mut clauses: Vec<Clause> = Vec::new();
    let mut avail: Vec<(String, usize)> = EDB_RELS.iter().map(|(n, a)| (n.to_string(), *a)).collect();
    let mut i = 0;
    while i < n_idb {
        let name = format!("p{}", i + 1);
        let ar = 1 + g.r.below(3);
        arity.insert(name.clone(), ar);
        let negs = avail.clone();
        if i + 1 < n_idb && g.pct(o.mutual) {
            // mutually recursive pair p_i, p_{i+1}
            g.tags.insert("rec_mutual");
            let name2 = format!("p{}", i + 2);
            let ar2 = 1 + g.r.below(3);
            arity.insert(name2.clone(), ar2);
            let c1 = g.clause(&name, ar, &avail, None, &negs, true, None); // base
            let mut both = avail.clone();
            both.push((name.clone(), ar));
            both.push((name2.clone(), ar2));
            let c2 = g.clause(&name2, ar2, &both, Some((name.clone(), ar)), &negs, false, None);
            let c3 = g.clause(&name, ar, &both, Some((name2.clone(), ar2)), &negs, false, None);
            let mut group = vec![c1, c2, c3];
            if g.pct(40) {
                group.push(g.clause(&name2, ar2, &avail, None, &negs, true, None));
            }
            g.r.shuffle(&mut group);
            clauses.extend(group);
            avail.push((name, ar));
            avail.push((name2, ar2));
            i += 2;
            continue;
        }
        if g.pct(o.rec) {
            g.tags.insert("rec_self");
            if ar >= 2 && g.pct(o.rec_arith) {
                // bounded counter: p(.., D) <- p(.., D1), e(..), D = D1 + 1, D < k
                g.tags.insert("rec_arith");
                let (er, ea) = g.r.pick(&[("a", 2usize), ("b", 2usize)]).to_owned();
                let mut hb: Vec<HeadArg> = (0..ar - 1).map(|_| HeadArg::T(Term::Var("X".into()))).collect();
                hb.push(HeadArg::T(Term::C(V::I(0))));
                let base = Clause {
                    head: name.clone(),
                    hargs: hb,
                    body: vec![Lit::Pos(Atom { rel: er.to_string(), args: vec![Term::Var("X".into()), Term::Wild][..ea].to_vec() })],
                };
                let mut rargs: Vec<Term> = (0..ar - 1).map(|_| Term::Var("Y".into())).collect();
                rargs.push(Term::Var("D1".into()));
                let mut hr: Vec<HeadArg> = (0..ar - 1).map(|_| HeadArg::T(Term::Var("X".into()))).collect();
                hr.push(HeadArg::T(Term::Var("D".into())));
                let bound = g.r.range(2, 5);
                let rec = Clause {
                    head: name.clone(),
                    hargs: hr,
                    body: vec![
                        Lit::Pos(Atom { rel: name.clone(), args: rargs }),
                        Lit::Pos(Atom { rel: er.to_string(), args: vec![Term::Var("Y".into()), Term::Var("X".into())] }),
                        Lit::Assign("D".into(), Arith::Bin(Box::new(Arith::T(Term::Var("D1".into()))), Op::Add, Box::new(Arith::T(Term::C(V::I(1)))))),
                        Lit::Cmp(Term::Var("D".into()), Cmp::Lt, Term::C(V::I(bound))),
                    ],
                };
                clauses.push(base);
                clauses.push(rec);
            } else {
                let base = g.clause(&name, ar, &avail, None, &negs, true, None);
                let mut with_self = avail.clone();
                with_self.push((name.clone(), ar));
                let rec = g.clause(&name, ar, &with_self, Some((name.clone(), ar)), &negs, false, None);
                if g.pct(50) {
                    clauses.push(base);
                    clauses.push(rec);
                } else {
                    clauses.push(rec);
                    clauses.push(base);
                }
                if g.pct(20) {
                    let rec2 = g.clause(&name, ar, &with_self, Some((name.clone(), ar)), &negs, false, None);
                    clauses.push(rec2);
                }
            }
        } else {
            clauses.push(g.clause(&name, ar, &avail, None, &negs, true, None));
            if g.pct(o.union) {
                g.tags.insert("union");
                clauses.push(g.clause(&name, ar, &avail, None, &negs, true, None));
                if g.pct(25) {
                    clauses.push(g.clause(&name, ar, &avail, None, &negs, true, None));
                }
            }
        }
        avail.push((name, ar));
        i += 1;
    }
    // query: prefer bodies over the IDB relations when present
    let qar = 1 + g.r.below(3);
    arity.insert("q".into(), qar);
    let mut qavail = avail.clone();
    for (n, a) in avail.iter().filter(|(n, _)| n.starts_with('p')) {
        qavail.push((n.clone(), *a));
        qavail.push((n.clone(), *a));
    }
    let agg = if g.pct(o.agg) {
        Some(*g.r.pick(&[AggFn::Count, AggFn::Sum, AggFn::Min, AggFn::Max, AggFn::Count, AggFn::CountDistinct, AggFn::Avg]))
    } else {
        None
    };
    let negs = avail.clone();
    let mut qc = g.clause("q", qar, &qavail, None, &negs, true, agg);
    if g.pct(o.bound_query) {
        // bind one argument of an IDB atom in the query to a constant (magic-set trigger)
        let k = g.konst();
        for l in qc.body.iter_mut() {
            if let Lit::Pos(a) = l {
                if a.rel.starts_with('p') {
                    let pos = g.r.below(a.args.len());
                    a.args[pos] = k.clone();
                    g.tags.insert("bound_query");
                    break;
                }
            }
        }
    }
    clauses.push(qc);
    if agg.is_none() && g.pct(o.union / 2) {
        g.tags.insert("union");
        g.tags.insert("query_union");
        clauses.push(g.clause("q", qar, &qavail, None, &negs, true, None));
    }
    let tags = g.tags;
    GenProgram { clauses, edb, arity, query: "q".into(), tags }
}
