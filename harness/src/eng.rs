//! Helpers driving the real `IQLEngine` at its public boundary.

use crate::ctx::guarded;
use crate::gen::GenProgram;
use crate::refdl::{Db, Rel, Tup, V};
use inputlayer::{IQLEngine, OptimizationConfig, Tuple, Value};
use std::collections::BTreeMap;

pub fn v_to_value(v: &V) -> Value {
    match v {
        V::I(i) => Value::Int64(*i),
        V::S(s) => Value::string(s),
        V::F(b) => Value::Float64(f64::from_bits(*b)),
    }
}
pub fn value_to_v(v: &Value) -> V {
    match v {
        Value::Int32(i) => V::I(i64::from(*i)),
        Value::Int64(i) => V::I(*i),
        Value::String(s) => V::S(s.to_string()),
        Value::Float64(f) => V::F(f.to_bits()),
        other => V::S(format!("<{other:?}>")),
    }
}
pub fn tup_to_tuple(t: &Tup) -> Tuple {
    Tuple::new(t.iter().map(v_to_value).collect())
}
pub fn tuple_to_tup(t: &Tuple) -> Tup {
    t.values().iter().map(value_to_v).collect()
}

pub fn config_from_bits(bits: u8) -> OptimizationConfig {
    OptimizationConfig {
        enable_join_planning: bits & 1 != 0,
        enable_sip_rewriting: bits & 2 != 0,
        enable_subplan_sharing: bits & 4 != 0,
        enable_boolean_specialization: bits & 8 != 0,
        enable_magic_sets: bits & 16 != 0,
    }
}
pub fn config_name(bits: u8) -> String {
    let names = ["join", "sip", "share", "bool", "magic"];
    let on: Vec<&str> = (0..5).filter(|i| bits & (1 << i) != 0).map(|i| names[i]).collect();
    if on.is_empty() {
        "none".into()
    } else {
        on.join("+")
    }
}
pub const DEFAULT_BITS: u8 = 31;

pub fn load_edb(e: &mut IQLEngine, edb: &Db) {
    for (name, rel) in edb {
        if rel.is_empty() {
            continue; // add_tuples(.., []) would register a bogus arity-2 schema
        }
        e.add_tuples(name, rel.iter().map(tup_to_tuple).collect());
    }
}

#[derive(Clone, Debug)]
pub struct Answer {
    /// raw rows as returned (order preserved) for duplicate / arity checks
    pub rows: Vec<Tup>,
    pub raw: Vec<Tuple>,
}
impl Answer {
    pub fn set(&self) -> Rel {
        self.rows.iter().cloned().collect()
    }
}

#[derive(Clone, Debug, Default)]
pub struct RunOpts {
    pub bits: Option<u8>,
    pub workers: Option<usize>,
    pub max_rows: Option<usize>,
}

/// Outcome of one engine execution: Ok(answer), Err(engine error text) — panics are reported
/// as Err("panic: …").
pub fn run_engine(p: &GenProgram, o: &RunOpts) -> Result<Answer, String> {
    run_text(&p.text(), &p.edb, o)
}

pub fn run_text(text: &str, edb: &Db, o: &RunOpts) -> Result<Answer, String> {
    guarded(|| {
        let envbits = std::env::var("ILV_BITS").ok().and_then(|s| s.parse::<u8>().ok());
        let mut e = match o.bits.or(envbits) {
            Some(b) => IQLEngine::with_config(config_from_bits(b)),
            None => IQLEngine::new(),
        };
        if let Some(w) = o.workers {
            e.set_num_workers(w);
        }
        if let Some(m) = o.max_rows {
            e.set_max_result_rows(m);
        }
        load_edb(&mut e, edb);
        e.execute_tuples(text).map(|raw| Answer { rows: raw.iter().map(tuple_to_tup).collect(), raw })
    })
    .and_then(|r| r)
}

pub fn rel_json(r: &Rel) -> serde_json::Value {
    serde_json::json!(r.iter().map(|t| format!("({})", t.iter().map(|x| x.to_string()).collect::<Vec<_>>().join(","))).collect::<Vec<_>>())
}
pub fn rows_json(r: &[Tup]) -> serde_json::Value {
    serde_json::json!(r.iter().map(|t| format!("({})", t.iter().map(|x| x.to_string()).collect::<Vec<_>>().join(","))).collect::<Vec<_>>())
}

/// difference summary used for signatures: "missing", "extra" or "missing+extra"
pub fn diff_kind(got: &Rel, want: &Rel) -> &'static str {
    let missing = want.difference(got).next().is_some();
    let extra = got.difference(want).next().is_some();
    match (missing, extra) {
        (true, true) => "missing+extra",
        (true, false) => "missing",
        (false, true) => "extra",
        (false, false) => "equal",
    }
}

pub fn tag_counts(counters: &mut BTreeMap<String, u64>, p: &GenProgram) {
    for t in &p.tags {
        *counters.entry(format!("tag:{t}")).or_insert(0) += 1;
    }
}
